#!/usr/bin/env python3
"""Verify and archive a change written by an independent sub-agent, then run checks against it.

  seed.py <PROP> <name> <srcdir> [<check ID> ...]

<srcdir> holds patch.diff, seed_demo_test.go and SEED_NOTES.md.  The script confirms, in a fresh
scratch worktree of /repo HEAD: the patch applies; the stock suite passes with it; the demonstration
fails with it and passes without it.  Only then is it kept as /verif/seeded/<PROP>-<name>/ with
meta.json, and the listed checks (default: the property's own) are run against it.
"""
import json, os, shutil, subprocess, sys, tempfile, time
HERE = os.path.dirname(os.path.abspath(__file__))
VERIF = os.path.dirname(HERE)
sys.path.insert(0, HERE)
import mut

def main():
    prop, name, src = sys.argv[1:4]
    checks = sys.argv[4:] or [prop]
    dest = os.path.join(VERIF, "seeded", "%s-%s" % (prop, name))
    patch = os.path.join(src, "patch.diff")
    demo = os.path.join(src, "seed_demo_test.go")
    meta = {"property": prop, "name": name}
    d = mut.worktree()
    try:
        rc, out = mut.sh(["git", "apply", patch], cwd=d)
        if rc != 0:
            print("patch does not apply:", out); return 1
        rc, out = mut.sh(["go", "test", "-vet=off", "-count=1", "./..."], cwd=d, timeout=1200)
        meta["stock_suite_with_change"] = "pass" if rc == 0 else "FAIL"
        if rc != 0:
            print("stock suite fails with the change:\n", out[-1500:]); return 1
        shutil.copy(demo, os.path.join(d, "seed_demo_test.go"))
        race = ["-race"] if os.environ.get("SEED_RACE") else []
        rc, out = mut.sh(["go", "test", "-vet=off", "-count=1"] + race + ["-run", "TestSeedDemo", "."], cwd=d, timeout=1200)
        meta["demo_with_change"] = "fails" if rc != 0 else "PASSES"
        demo_out = out[-1200:]
        mut.sh(["git", "apply", "-R", patch], cwd=d)
        rc2, out2 = mut.sh(["go", "test", "-vet=off", "-count=1"] + race + ["-run", "TestSeedDemo", "."], cwd=d, timeout=1200)
        meta["demo_without_change"] = "passes" if rc2 == 0 else "FAILS"
        if rc == 0 or rc2 != 0:
            print("demonstration does not discriminate:", meta, demo_out, out2[-800:]); return 1
    finally:
        mut.drop(d)
    os.makedirs(dest, exist_ok=True)
    shutil.copy(patch, os.path.join(dest, "patch.diff"))
    shutil.copy(demo, os.path.join(dest, "seed_demo_test.go"))
    notes = os.path.join(src, "SEED_NOTES.md")
    if os.path.exists(notes):
        shutil.copy(notes, os.path.join(dest, "SEED_NOTES.md"))
    res = mut.test(patch, checks)
    meta["what_ran"] = "sensitivity/seed.py: patch applied to a scratch worktree of /repo HEAD; stock suite; demonstration with/without the change; then ./run <ID> quick with VERIF_REPO=<worktree>, VERIF_NO_REGRESS=1"
    meta["checks"] = {k: v for k, v in res.items() if isinstance(v, dict)}
    meta["detected_by"] = [k for k, v in meta["checks"].items() if v.get("detected")]
    json.dump(meta, open(os.path.join(dest, "meta.json"), "w"), indent=1)
    print(json.dumps(meta, indent=1))
    return 0

if __name__ == "__main__":
    sys.exit(main())
