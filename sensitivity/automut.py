#!/usr/bin/env python3
"""Systematic mutation run: small syntactic mutants of the non-test Go sources of /repo HEAD,
filtered by the stock suite, then judged by the checks that cover the mutated file.

  automut.py gen                 list mutants -> automut/mutants.json
  automut.py run [N] [workers]   run up to N not-yet-run mutants (random order, fixed seed)
  automut.py report              automut/REPORT.md: killed by stock suite / detected / survived

Every mutant lives in its own scratch copy under /tmp (removed afterwards); /repo is never touched.
A surviving mutant is either equivalent (the change cannot alter behaviour the properties talk about)
or a gap; survivors are listed for manual review.
"""
import json, os, random, re, shutil, subprocess, sys, tempfile, time
from concurrent.futures import ThreadPoolExecutor

HERE = os.path.dirname(os.path.abspath(__file__))
VERIF = os.path.dirname(HERE)
OUT = os.path.join(HERE, "automut")
REPO = "/repo"
ENV = dict(os.environ, GOFLAGS="-mod=mod", GOPROXY="off", GOSUMDB="off", GOTOOLCHAIN="local")

CHECKS = {
    "writer.go": ["C01", "C14", "C02", "C11", "C07"],
    "block.go": ["C01", "C02", "C14", "C18"],
    "record.go": ["C01", "C14", "C02", "C11", "C18"],
    "reader.go": ["C02", "C01", "C11", "C03", "C18"],
    "merged.go": ["C03", "C11", "C07"],
    "iter.go": ["C11", "C03"],
    "reftable.go": ["C02", "C01", "C05"],
    "refname.go": ["C12"],
    "stack.go": ["C04", "C07", "C09", "C16", "C05", "C10", "C12", "C13", "C17", "C08", "C06"],
}

REL = [(r"(?<![<>=!:+\-*/&|^%])<(?![<=\-])", "<="), (r"<=", "<"), (r"(?<![<>=!\-])>(?![>=])", ">="), (r">=", ">"),
       (r"==", "!="), (r"!=", "=="), (r"&&", "||"), (r"\|\|", "&&"),
       (r"\+ 1\b", "+ 0"), (r"- 1\b", "- 0"), (r"\+ 1\b", "+ 2")]


def mutants_of(fn, lines):
    out = []
    in_block_comment = False
    for i, line in enumerate(lines):
        s = line.strip()
        if s.startswith("/*"):
            in_block_comment = True
        if in_block_comment:
            if "*/" in s:
                in_block_comment = False
            continue
        if not s or s.startswith("//") or s.startswith("import") or s.startswith("package") or s.startswith('"'):
            continue
        code = line.split("//")[0]
        if '"' in code or "`" in code:
            code_nostr = re.sub(r'"[^"]*"', lambda m: " " * len(m.group(0)), code)
        else:
            code_nostr = code
        for pat, rep in REL:
            for m in re.finditer(pat, code_nostr):
                new = line[:m.start()] + rep + line[m.end():]
                out.append({"file": fn, "line": i + 1, "op": "%s -> %s" % (m.group(0), rep), "old": line.rstrip("\n"), "new": new.rstrip("\n")})
        # statement deletion: a line that is only a call (incl. defer) or a simple assignment
        if re.match(r"^\s*(defer\s+)?[\w\.\[\]\(\)\*&]+\([^{}]*\)\s*$", code) and not s.startswith("return") and not s.startswith("func") \
                and not s.startswith("panic") and not s.startswith("log.Panic"):
            out.append({"file": fn, "line": i + 1, "op": "delete statement", "old": line.rstrip("\n"), "new": re.match(r"^\s*", line).group(0) + "// (deleted)"})
        # condition negation
        m = re.match(r"^(\s*)if (.+) \{\s*$", code)
        if m and ";" not in m.group(2):
            out.append({"file": fn, "line": i + 1, "op": "negate condition", "old": line.rstrip("\n"),
                        "new": "%sif !(%s) {" % (m.group(1), m.group(2))})
            out.append({"file": fn, "line": i + 1, "op": "condition -> false", "old": line.rstrip("\n"),
                        "new": "%sif false && (%s) {" % (m.group(1), m.group(2))})
    return out


def gen():
    os.makedirs(OUT, exist_ok=True)
    allm = []
    for fn in sorted(CHECKS):
        lines = open(os.path.join(REPO, fn)).readlines()
        allm += mutants_of(fn, lines)
    for i, m in enumerate(allm):
        m["id"] = i
    json.dump(allm, open(os.path.join(OUT, "mutants.json"), "w"), indent=0)
    print(len(allm), "mutants")


C_FILES = ["writer.c", "reader.c", "block.c", "record.c", "iter.c", "merged.c", "pq.c", "stack.c", "tree.c", "basics.c", "strbuf.c"]


def c_mutants_of(fn, lines):
    out = []
    in_comment = False
    for i, line in enumerate(lines):
        s = line.strip()
        if "/*" in s and "*/" not in s:
            in_comment = True
            continue
        if in_comment:
            if "*/" in s:
                in_comment = False
            continue
        if not s or s.startswith("#") or s.startswith("//") or s.startswith("/*") or s.startswith("*"):
            continue
        code = re.sub(r'"[^"]*"', lambda m: " " * len(m.group(0)), line.split("/*")[0])
        for pat, rep in REL:
            for m in re.finditer(pat, code):
                new = line[:m.start()] + rep + line[m.end():]
                out.append({"file": "c/" + fn, "line": i + 1, "op": "%s -> %s" % (m.group(0), rep), "old": line.rstrip("\n"), "new": new.rstrip("\n")})
        if re.match(r"^\s*[\w\.\->\[\]\(\)\*&]+\(.*\);\s*$", code) and not re.match(r"^\s*(return|goto|abort|assert|exit)\b", s):
            out.append({"file": "c/" + fn, "line": i + 1, "op": "delete statement", "old": line.rstrip("\n"), "new": re.match(r"^\s*", line).group(0) + ";"})
        m = re.match(r"^(\s*)if \((.+)\) \{\s*$", code)
        if m:
            out.append({"file": "c/" + fn, "line": i + 1, "op": "negate condition", "old": line.rstrip("\n"), "new": "%sif (!(%s)) {" % (m.group(1), m.group(2))})
            out.append({"file": "c/" + fn, "line": i + 1, "op": "condition -> false", "old": line.rstrip("\n"), "new": "%sif (0 && (%s)) {" % (m.group(1), m.group(2))})
    return out


def genc():
    os.makedirs(OUT, exist_ok=True)
    allm = []
    for fn in C_FILES:
        allm += c_mutants_of(fn, open(os.path.join(REPO, "c", fn)).readlines())
    for i, m in enumerate(allm):
        m["id"] = 100000 + i
    json.dump(allm, open(os.path.join(OUT, "mutants_c.json"), "w"), indent=0)
    print(len(allm), "C mutants")


def run_one_c(m):
    d = tempfile.mkdtemp(prefix="amc-", dir="/tmp")
    res = dict(m)
    try:
        for fn in os.listdir(REPO):
            p = os.path.join(REPO, fn)
            if os.path.isfile(p) and (fn.endswith(".go") or fn == "go.mod"):
                shutil.copy(p, os.path.join(d, fn))
        shutil.copytree(os.path.join(REPO, "c"), os.path.join(d, "c"))
        path = os.path.join(d, m["file"])
        lines = open(path).readlines()
        if lines[m["line"] - 1].rstrip("\n") != m["old"]:
            res["status"] = "stale"
            return res
        lines[m["line"] - 1] = m["new"] + "\n"
        open(path, "w").writelines(lines)
        rc, out = sh(["gcc", "-I" + os.path.join(d, "c"), "-I" + os.path.join(d, "c", "include"), "-c", path, "-o", "/dev/null", "-Werror=implicit-function-declaration"], d)
        if rc != 0:
            res["status"] = "does-not-compile"
            return res
        os.makedirs("/tmp/mut-replays", exist_ok=True)
        env = dict(ENV, VERIF_REPO=d, VERIF_NOEVIDENCE="1", VERIF_NO_REGRESS="1", VERIF_REPLAY_DIR="/tmp/mut-replays", VERIF_SHARD_TIMEOUT="400")
        t0 = time.time()
        rc, out = sh([os.path.join(VERIF, "run"), "C15", "quick"], VERIF, timeout=1500, env=env)
        sig = [l.strip() for l in out.splitlines() if l.strip().startswith("sig=")][:1]
        res["checks"] = {"C15": {"exit": rc, "sig": sig, "wall": round(time.time() - t0, 1)}}
        res["status"] = {0: "survived", 1: "detected"}.get(rc, "inconclusive")
        if rc == 1:
            res["detected_by"] = "C15"
        return res
    finally:
        shutil.rmtree(d, ignore_errors=True)


def runc(n, workers):
    from concurrent.futures import as_completed
    allm = json.load(open(os.path.join(OUT, "mutants_c.json")))
    donep = os.path.join(OUT, "results_c.jsonl")
    done = set()
    if os.path.exists(donep):
        for l in open(donep):
            try:
                done.add(json.loads(l)["id"])
            except Exception:
                pass
    todo = [m for m in allm if m["id"] not in done]
    random.Random(4242).shuffle(todo)
    todo = todo[:n]
    print("running", len(todo), "C mutants with", workers, "workers", flush=True)
    with ThreadPoolExecutor(max_workers=workers) as ex, open(donep, "a") as f:
        futs = [ex.submit(run_one_c, m) for m in todo]
        for fu in as_completed(futs):
            try:
                r = fu.result()
            except Exception as e:
                print("worker error:", repr(e), flush=True)
                continue
            f.write(json.dumps(r) + "\n")
            f.flush()
            print(r["id"], r["file"], r["line"], r["op"], "->", r["status"], flush=True)


def sh(cmd, cwd, timeout=900, env=None):
    try:
        p = subprocess.run(cmd, cwd=cwd, env=env or ENV, stdout=subprocess.PIPE, stderr=subprocess.STDOUT, text=True, errors="replace", timeout=timeout)
        return p.returncode, p.stdout
    except subprocess.TimeoutExpired:
        return 124, "timeout"


def run_one(m):
    d = tempfile.mkdtemp(prefix="am-", dir="/tmp")
    res = dict(m)
    try:
        for fn in os.listdir(REPO):
            p = os.path.join(REPO, fn)
            if os.path.isfile(p) and (fn.endswith(".go") or fn == "go.mod"):
                shutil.copy(p, os.path.join(d, fn))
        path = os.path.join(d, m["file"])
        lines = open(path).readlines()
        if lines[m["line"] - 1].rstrip("\n") != m["old"]:
            res["status"] = "stale"
            return res
        lines[m["line"] - 1] = m["new"] + "\n"
        open(path, "w").writelines(lines)
        rc, out = sh(["go", "build", "./..."], d)
        if rc != 0:
            res["status"] = "does-not-compile"
            return res
        rc, out = sh(["go", "vet", "."], d)
        rc, out = sh(["go", "test", "-vet=off", "-count=1", "-timeout", "120s", "."], d, timeout=300)
        if rc != 0:
            res["status"] = "killed-by-stock-suite"
            return res
        res["status"] = "survived"
        res["checks"] = {}
        os.makedirs("/tmp/mut-replays", exist_ok=True)
        for c in CHECKS[m["file"]]:
            env = dict(ENV, VERIF_REPO=d, VERIF_NOEVIDENCE="1", VERIF_NO_REGRESS="1", VERIF_REPLAY_DIR="/tmp/mut-replays",
                       VERIF_SHARD_TIMEOUT="300")
            t0 = time.time()
            rc, out = sh([os.path.join(VERIF, "run"), c, "quick"], VERIF, timeout=1500, env=env)
            sig = [l.strip() for l in out.splitlines() if l.strip().startswith("sig=")][:1]
            res["checks"][c] = {"exit": rc, "sig": sig, "wall": round(time.time() - t0, 1)}
            if rc == 1:
                res["status"] = "detected"
                res["detected_by"] = c
                break
            if rc == 2:
                # the check could not finish (the mutant hangs or kills the test process): not a verdict
                res["status"] = "inconclusive"
                res["detected_by"] = c
                break
        return res
    finally:
        shutil.rmtree(d, ignore_errors=True)


def run(n, workers):
    allm = json.load(open(os.path.join(OUT, "mutants.json")))
    donep = os.path.join(OUT, "results.jsonl")
    done = set()
    if os.path.exists(donep):
        for l in open(donep):
            try:
                done.add(json.loads(l)["id"])
            except Exception:
                pass
    todo = [m for m in allm if m["id"] not in done]
    random.Random(12345).shuffle(todo)
    todo = todo[:n]
    print("running", len(todo), "mutants with", workers, "workers", flush=True)
    from concurrent.futures import as_completed
    with ThreadPoolExecutor(max_workers=workers) as ex, open(donep, "a") as f:
        futs = [ex.submit(run_one, m) for m in todo]
        for fu in as_completed(futs):
            try:
                r = fu.result()
            except Exception as e:  # keep the sweep going
                print("worker error:", repr(e), flush=True)
                continue
            f.write(json.dumps(r) + "\n")
            f.flush()
            print(r["id"], r["file"], r["line"], r["op"], "->", r["status"], r.get("detected_by", ""), flush=True)


def report():
    rs = [json.loads(l) for l in open(os.path.join(OUT, "results.jsonl"))]
    by = {}
    for r in rs:
        by.setdefault(r["status"], []).append(r)
    lines = ["# Systematic mutation run", "",
             "Syntactic single-line mutants of the non-test Go sources of /repo HEAD (relational/boolean operator replacement,",
             "+1/-1 tweaks, deletion of call statements, negated and disabled conditions), sampled at random (fixed seed).",
             "A mutant is first given to the stock 52-test suite; only those it lets through reach the checks of the properties",
             "that cover the mutated file (quick tier, seed 1, regression replay tier off, first detection wins).", "",
             "| outcome | mutants |", "|---|---|"]
    for k in ["does-not-compile", "killed-by-stock-suite", "detected", "inconclusive", "survived", "stale"]:
        lines.append("| %s | %d |" % (k, len(by.get(k, []))))
    reach = len(by.get("detected", [])) + len(by.get("survived", []))
    if reach:
        lines += ["", "Of the %d mutants the stock suite lets through, the checks detect %d (%.0f%%)." % (reach, len(by.get("detected", [])), 100.0 * len(by.get("detected", [])) / reach)]
    det = {}
    for r in by.get("detected", []):
        det[r["detected_by"]] = det.get(r["detected_by"], 0) + 1
    lines += ["", "Detections by check: " + ", ".join("%s %d" % kv for kv in sorted(det.items())), "",
              "## Survivors (for manual review: equivalent, outside every property, or a gap)", ""]
    notes = {}
    np = os.path.join(OUT, "survivor_notes.json")
    if os.path.exists(np):
        notes = json.load(open(np))
    for r in sorted(by.get("survived", []), key=lambda r: (r["file"], r["line"])):
        key = "%s:%d:%s" % (r["file"], r["line"], r["op"])
        lines.append("* `%s:%d` %s: `%s` -> `%s` - %s" % (r["file"], r["line"], r["op"], r["old"].strip(), r["new"].strip(), notes.get(key, "not yet reviewed")))
    # ---- C sweep
    cp = os.path.join(OUT, "results_c.jsonl")
    if os.path.exists(cp):
        cs = [json.loads(l) for l in open(cp)]
        cby = {}
        for r in cs:
            cby.setdefault(r["status"], []).append(r)
        lines += ["", "# Systematic mutation run over the C implementation (c/*.c)", "",
                  "Same operators on writer.c reader.c block.c record.c iter.c merged.c pq.c stack.c tree.c basics.c strbuf.c. There is",
                  "no offline C test suite to filter with, so every mutant that compiles goes straight to C15 (quick tier, ASan+UBSan build).", "",
                  "| outcome | mutants |", "|---|---|"]
        for k in ["does-not-compile", "detected", "inconclusive", "survived", "stale"]:
            lines.append("| %s | %d |" % (k, len(cby.get(k, []))))
        perfile = {}
        for r in cs:
            d = perfile.setdefault(r["file"], {"detected": 0, "survived": 0})
            if r["status"] in d:
                d[r["status"]] += 1
        lines += ["", "| file | detected | survived |", "|---|---|---|"]
        for fn, d in sorted(perfile.items()):
            lines.append("| %s | %d | %d |" % (fn, d["detected"], d["survived"]))
        cnotes = {}
        cnp = os.path.join(OUT, "survivor_notes_c.json")
        if os.path.exists(cnp):
            cnotes = json.load(open(cnp))
        lines += ["", "## C survivors", "", cnotes.get("_summary", ""), ""]
        for r in sorted(cby.get("survived", []), key=lambda r: (r["file"], r["line"])):
            key = "%s:%d:%s" % (r["file"], r["line"], r["op"])
            cls = cnotes.get(key) or classify_c(r)
            lines.append("* `%s:%d` %s: `%s` - %s" % (r["file"], r["line"], r["op"], r["old"].strip()[:90], cls))
    open(os.path.join(OUT, "REPORT.md"), "w").write("\n".join(lines) + "\n")
    print("\n".join(lines[:16]))


def classify_c(r):
    """Mechanical first classification of a C survivor (reviewed by hand where it says 'review')."""
    o = r["old"].strip()
    if r["op"] == "delete statement" and re.search(r"(release|free|destroy|close|done)\w*\(", o):
        return "memory/handle release removed: a leak (leak detection is off in the driver build), no observable difference"
    if "printf" in o or "print" in o:
        return "debug printing"
    if re.search(r"err\s*(<|>|<=|>=|!=|==)\s*0", o) or "< 0" in o and ("n <" in o or "err" in o):
        return "error path: no I/O or format errors occur on tables the other implementation wrote"
    if r["file"] == "c/stack.c":
        return "stack locking / failure path: C15 drives the C stack from one process only (stated limit)"
    if "cap" in o:
        return "buffer growth policy"
    return "review"


if __name__ == "__main__":
    a = sys.argv[1:]
    if not a:
        print(__doc__); sys.exit(2)
    if a[0] == "gen":
        gen()
    elif a[0] == "run":
        run(int(a[1]) if len(a) > 1 else 100, int(a[2]) if len(a) > 2 else 6)
    elif a[0] == "genc":
        genc()
    elif a[0] == "runc":
        runc(int(a[1]) if len(a) > 1 else 100, int(a[2]) if len(a) > 2 else 6)
    elif a[0] == "recheck":
        # re-run survivors of the given files against one more check (e.g. after the mapping was extended)
        check, files = a[1], a[2:]
        rs = [json.loads(l) for l in open(os.path.join(OUT, "results.jsonl"))]
        out = []
        for r in rs:
            if r["status"] == "survived" and r["file"] in files and check not in r.get("checks", {}):
                saved = CHECKS[r["file"]]
                CHECKS[r["file"]] = [check]
                r2 = run_one({k: r[k] for k in ("file", "line", "op", "old", "new", "id")})
                CHECKS[r["file"]] = saved
                r["checks"].update(r2.get("checks", {}))
                if r2["status"] in ("detected", "inconclusive"):
                    r["status"], r["detected_by"] = r2["status"], check
                print(r["id"], r["file"], r["line"], r["op"], "->", r["status"], flush=True)
            out.append(r)
        with open(os.path.join(OUT, "results.jsonl"), "w") as f:
            for r in out:
                f.write(json.dumps(r) + "\n")
    elif a[0] == "recheck-force":
        # re-run survivors of the given files against a check that was strengthened since (parallel)
        check, files = a[1], a[2:]
        rs = [json.loads(l) for l in open(os.path.join(OUT, "results.jsonl"))]
        todo = [r for r in rs if r["status"] in ("survived", "inconclusive") and r["file"] in files]
        def one(r):
            saved = CHECKS[r["file"]]
            CHECKS[r["file"]] = [check]
            try:
                return r, run_one({k: r[k] for k in ("file", "line", "op", "old", "new", "id")})
            finally:
                CHECKS[r["file"]] = saved
        for f_ in files:
            CHECKS[f_] = [check]
        with ThreadPoolExecutor(max_workers=6) as ex:
            for r, r2 in ex.map(one, todo):
                if "checks" in r2:
                    r.setdefault("checks", {})[check + "-rerun"] = r2["checks"].get(check)
                if r2["status"] == "detected":
                    r["status"], r["detected_by"] = "detected", check + " (after strengthening)"
                print(r["id"], r["file"], r["line"], r["op"], "->", r["status"], flush=True)
        with open(os.path.join(OUT, "results.jsonl"), "w") as f:
            for r in rs:
                f.write(json.dumps(r) + "\n")
    elif a[0] == "report":
        report()
