#!/usr/bin/env python3
"""Re-run every archived seeded change against its property's own check (quick tier, current harness).

  seed_recheck.py [workers]     results go to seeded/<dir>/meta.json under "recheck" and to stdout
"""
import json, os, sys, time
from concurrent.futures import ThreadPoolExecutor
HERE = os.path.dirname(os.path.abspath(__file__))
sys.path.insert(0, HERE)
import mut
SEEDED = os.path.join(mut.VERIF, "seeded")

def one(d):
    mp = os.path.join(SEEDED, d, "meta.json")
    m = json.load(open(mp))
    prop = m["property"]
    ids = [prop]
    # a seed that its own property's check does not see by design is run against the checks that reported it
    own = m.get("checks", {}).get(prop, {})
    later = [k for k in m.get("checks", {}) if k.startswith(prop + "-after")]
    if not own.get("detected") and not later:
        ids = [k for k, v in m.get("checks", {}).items() if v.get("detected") and len(k) == 3] or [prop]
    r = mut.test(os.path.join(SEEDED, d, "patch.diff"), ids)
    m["recheck"] = {k: v for k, v in r.items() if isinstance(v, dict)}
    m["recheck_when"] = time.strftime("%Y-%m-%d %H:%M")
    json.dump(m, open(mp, "w"), indent=1)
    return d, m.get("violates_property_as_stated", True), {k: (v["detected"], v["head"][1:2]) for k, v in m["recheck"].items()}

if __name__ == "__main__":
    w = int(sys.argv[1]) if len(sys.argv) > 1 else 3
    dirs = sorted(x for x in os.listdir(SEEDED) if os.path.exists(os.path.join(SEEDED, x, "meta.json")))
    with ThreadPoolExecutor(max_workers=w) as ex:
        for d, breaks, res in ex.map(one, dirs):
            flag = "ok" if any(v[0] for v in res.values()) else ("silent (expected: property holds)" if not breaks else "MISSED")
            print(d, flag, res, flush=True)
