#!/usr/bin/env python3
"""Sensitivity harness: deliberately broken copies of /repo (never /repo itself).

  mut.py new  <name> <file> <old> <new>      create patches/<name>.diff by literal replacement (must match once)
  mut.py test <name|path.diff> <ID> [<ID>..] apply to a scratch worktree of /repo HEAD, run the stock tests, then the checks (quick)
  mut.py all                                  run every patches/<ID>-*.diff against its own check; table of results
"""
import os, subprocess, sys, tempfile, shutil, json, time
HERE = os.path.dirname(os.path.abspath(__file__))
VERIF = os.path.dirname(HERE)
REPO = "/repo"
ENV = dict(os.environ, GOFLAGS="-mod=mod", GOPROXY="off", GOSUMDB="off", GOTOOLCHAIN="local")

def sh(cmd, cwd=None, env=None, timeout=None):
    p = subprocess.run(cmd, cwd=cwd, env=env or ENV, stdout=subprocess.PIPE, stderr=subprocess.STDOUT, text=True, errors="replace", timeout=timeout)
    return p.returncode, p.stdout

def worktree():
    d = tempfile.mkdtemp(prefix="mut-", dir="/tmp")
    os.rmdir(d)
    rc, out = sh(["git", "-C", REPO, "worktree", "add", "-q", "--detach", d, "HEAD"])
    if rc != 0:
        raise SystemExit(out)
    return d

def drop(d):
    sh(["git", "-C", REPO, "worktree", "remove", "--force", d])
    shutil.rmtree(d, ignore_errors=True)

def new(name, *triples):
    d = worktree()
    try:
        for i in range(0, len(triples), 3):
            file, old, new_ = triples[i:i + 3]
            p = os.path.join(d, file)
            s = open(p).read()
            if s.count(old) != 1:
                raise SystemExit("pattern occurs %d times in %s" % (s.count(old), file))
            open(p, "w").write(s.replace(old, new_, 1))
        rc, out = sh(["git", "diff"], cwd=d)
        path = os.path.join(HERE, "patches", name + ".diff")
        open(path, "w").write(out)
        rc, out = sh(["go", "build", "./..."], cwd=d)
        print("created", path, "build:", "ok" if rc == 0 else "FAILED\n" + out)
    finally:
        drop(d)

def test(patch, ids, tier="quick"):
    if not os.path.exists(patch):
        patch = os.path.join(HERE, "patches", patch + ".diff")
    d = worktree()
    res = {"patch": os.path.basename(patch)}
    try:
        rc, out = sh(["git", "apply", patch], cwd=d)
        if rc != 0:
            res["apply"] = "FAILED: " + out
            return res
        rc, out = sh(["go", "test", "-vet=off", "-count=1", "./..."], cwd=d, timeout=900)
        res["stock_tests"] = "pass" if rc == 0 else "FAIL"
        if rc != 0:
            res["stock_out"] = out[-1500:]
        for i in ids:
            t0 = time.time()
            os.makedirs("/tmp/mut-replays", exist_ok=True)
            env = dict(ENV, VERIF_REPO=d, VERIF_NOEVIDENCE="1", VERIF_REPLAY_DIR="/tmp/mut-replays", VERIF_NO_REGRESS="1")
            rc, out = sh([os.path.join(VERIF, "run"), i, tier], cwd=VERIF, env=env, timeout=3600)
            first = [l for l in out.splitlines() if l.startswith(("VIOLATION", "  sig=", "OK", "INCONCLUSIVE"))][:2]
            res[i] = {"exit": rc, "detected": rc == 1, "wall": round(time.time() - t0, 1), "head": first}
    finally:
        drop(d)
    return res

def report():
    """Writes RESULTS.md from results/*.json (one file per patch, written by 'all') and seeded/*/meta.json."""
    lines = ["# Sensitivity results", "",
             "Each row: a deliberately broken copy of /repo HEAD (never /repo itself), whether the stock 52-test suite",
             "still passes with it, and what the property's own check (quick tier, seed 1, regression replay tier off)",
             "reported.  `stock FAIL` rows are changes the existing tests already catch; they are kept only as a sanity",
             "check of the checks.  Regenerate with `sensitivity/mut.py all && sensitivity/mut.py report`.", "",
             "## Hand-written changes and reverted repairs (`patches/`)", "",
             "| patch | stock suite | check | detected | signature | wall s |", "|---|---|---|---|---|---|"]
    rdir = os.path.join(HERE, "results")
    for f in sorted(os.listdir(rdir)) if os.path.isdir(rdir) else []:
        r = json.load(open(os.path.join(rdir, f)))
        for k, v in r.items():
            if isinstance(v, dict):
                sig = " ".join(h.strip() for h in v.get("head", [])[1:2])
                lines.append("| %s | %s | %s | %s | %s | %s |" % (r["patch"].replace(".diff", ""), r.get("stock_tests"), k,
                                                              "yes" if v.get("detected") else "**NO** (exit %s)" % v.get("exit"), sig, v.get("wall")))
    lines += ["", "## Changes written by independent sub-agents (`/verif/seeded/`)", "",
              "Each was confirmed first: applies to HEAD, stock suite passes with it, its own demonstration fails with it and passes without it.", "",
              "| seeded change | property | detected by (quick tier) | not detected by |", "|---|---|---|---|"]
    sdir = os.path.join(VERIF, "seeded")
    for d in sorted(os.listdir(sdir)) if os.path.isdir(sdir) else []:
        mp = os.path.join(sdir, d, "meta.json")
        if not os.path.exists(mp):
            continue
        m = json.load(open(mp))
        det = ["%s (%s)" % (k, " ".join(h.strip() for h in v.get("head", [])[1:2])) for k, v in m.get("checks", {}).items() if v.get("detected")]
        nd = [k for k, v in m.get("checks", {}).items() if not v.get("detected")]
        extra = m.get("note", "")
        lines.append("| %s | %s | %s | %s |" % (d, m.get("property"), "; ".join(det) or "-", (", ".join(nd) or "-") + (" - " + extra if extra else "")))
    open(os.path.join(HERE, "RESULTS.md"), "w").write("\n".join(lines) + "\n")
    print("RESULTS.md written")


if __name__ == "__main__":
    a = sys.argv[1:]
    if not a:
        print(__doc__); sys.exit(2)
    if a[0] == "new":
        new(a[1], *a[2:])
    elif a[0] == "test":
        print(json.dumps(test(a[1], a[2:]), indent=1))
    elif a[0] == "all":
        rows = []
        only = a[1:] 
        for f in sorted(os.listdir(os.path.join(HERE, "patches"))):
            if not f.endswith(".diff"):
                continue
            pid = f.split("-")[0]
            if only and pid not in only:
                continue
            r = test(os.path.join(HERE, "patches", f), [pid])
            rows.append(r)
            os.makedirs(os.path.join(HERE, "results"), exist_ok=True)
            json.dump(r, open(os.path.join(HERE, "results", f.replace(".diff", ".json")), "w"), indent=1)
            print(f, r.get("stock_tests"), r.get(pid, r.get("apply")), flush=True)
        json.dump(rows, open(os.path.join(HERE, "last_results.json"), "w"), indent=1)
    elif a[0] == "report":
        report()
