package conc

import (
	"fmt"
	"testing"

	"pgregory.net/rapid"
	. "verifharness/evid"
)

// ---------------- C16: no residue

var residueOps = OpWeights{KOpen: 1, KAdd: 8, KAddMulti: 2, KAbandon: 2, KCompactAll: 4, KExpire: 1, KAutoCompact: 2, KRead: 1, KClose: 2, KClean: 2, KCompactRange: 3}

func genC16(t *rapid.T) Case {
	c := Case{Cfg: drawConcCfg(t)}
	hs := c.Cfg.HashSize()
	c.InitAuto, c.Init = drawInit(t, 5, hs, c.Cfg.Exact)
	n := rapid.IntRange(1, 4).Draw(t, "nprocs")
	c.Progs = drawProgs(t, n, 5, []OpWeights{residueOps}, hs, c.Cfg.Exact)
	// failing operations: rejected content, update index too low
	for p := range c.Progs {
		for i := range c.Progs[p].Ops {
			if c.Progs[p].Ops[i].Kind == KAdd && rapid.IntRange(0, 3).Draw(t, "bad") == 0 {
				c.Progs[p].Ops[i].Bad = rapid.IntRange(1, 2).Draw(t, "badKind")
			}
		}
	}
	c.Sched = drawSched(t, n)
	if rapid.IntRange(0, 7).Draw(t, "gcFamily") == 6 {
		gcInsideCompaction(t, &c)
		return c
	}
	if rapid.IntRange(0, 3).Draw(t, "cancelFamily") == 0 {
		// family: transactions over three names, half of them deletions, no logs and no
		// per-transaction unique ref - so that compactions whose result is EMPTY, stacks that
		// become empty again, and Close/Clean on them actually occur
		cancelFamily(t, &c, hs)
		return c
	}
	if n >= 2 && rapid.IntRange(0, 2).Draw(t, "crashFamily") == 0 {
		// second family: other processes crash, survivors Close/Clean
		c.Crashes = []Crash{{Proc: 0, At: rapid.IntRange(0, 50).Draw(t, "crashAt")}}
		last := len(c.Progs) - 1
		c.Progs[last].Ops = append(c.Progs[last].Ops, POp{Kind: KClean}, POp{Kind: KClose})
	}
	return c
}

func propC16(c Case, o *Obs) error {
	mon := Monitors{M16: true}
	if len(c.Crashes) > 0 {
		mon.M5 = true // Close/Clean of survivors must never remove a listed table
	}
	r := Exec(c, mon)
	classify(o, c, r)
	bad := false
	for _, p := range c.Progs {
		for _, op := range p.Ops {
			bad = bad || op.Bad != 0
		}
	}
	o.ClassIf(bad, "has-deliberately-failing-add")
	o.Nontrivial = r.FailedOps > 0 || r.LockContention
	return r.Violation
}

func TestC16(t *testing.T) { withEnumeration(t, "C16", Monitors{M16: true}, genC16, propC16) }

// ---------------- C06: a crash at any point leaves the previous or the next state

type c06Case struct {
	Base     Case `json:"base"`     // Progs[0] = {Open, target}; Progs[1] (optional) = survivor
	Survivor bool `json:"survivor"` // a second process continues after the crash
	// Early > 0: the survivor runs its first Early operations (Open, Read: nothing that
	// commits) before the target process starts, so it continues after the crash on a
	// handle whose view predates the interrupted operation.
	Early int `json:"early,omitempty"`
}

var c06Targets = []int{KAdd, KAdd, KAddMulti, KCompactAll, KExpire, KAutoCompact, KClean, KClose, KAbandon, KCompactRange, KCompactRange}

func genC06(t *rapid.T) c06Case {
	c := Case{Cfg: drawConcCfg(t)}
	hs := c.Cfg.HashSize()
	c.InitAuto, c.Init = drawInit(t, 6, hs, c.Cfg.Exact)
	kind := rapid.SampledFrom(c06Targets).Draw(t, "target")
	target := drawOp(t, OpWeights{kind: 1}, "p0/target", hs, c.Cfg.Exact)
	c.Progs = []Prog{{Auto: rapid.Bool().Draw(t, "auto"), Ops: []POp{{Kind: KOpen}, target}}}
	c.YieldOnWrite = rapid.IntRange(0, 2).Draw(t, "yieldOnWrite") == 2
	cc := c06Case{Base: c}
	if rapid.IntRange(0, 2).Draw(t, "survivor") == 0 {
		cc.Survivor = true
		early := rapid.Bool().Draw(t, "survivorOpensEarly")
		w := OpWeights{KAdd: 4, KRead: 2, KCompactAll: 2, KExpire: 2, KAutoCompact: 1, KCompactRange: 1, KClean: 1, KOpen: 1}
		if early {
			// what a handle with an outdated view may do to the directory
			w = OpWeights{KClean: 3, KClose: 1, KCompactAll: 2, KExpire: 1, KAutoCompact: 1, KCompactRange: 1, KAdd: 2, KRead: 2}
		}
		sp := drawProgs(t, 1, 3, []OpWeights{w}, hs, c.Cfg.Exact)[0]
		for i := range sp.Ops {
			for j := range sp.Ops[i].Txs {
				if len(sp.Ops[i].Txs[j].Refs) > 0 {
					sp.Ops[i].Txs[j].Refs[0].Name = Str(fmt.Sprintf("refs/u/survivor/t%d.%d", i, j))
				}
			}
		}
		if early {
			pre := []POp{{Kind: KOpen}}
			if rapid.Bool().Draw(t, "earlyRead") {
				pre = append(pre, POp{Kind: KRead})
			}
			sp.Ops = append(pre, sp.Ops...)
			cc.Early = len(pre)
		}
		cc.Base.Progs = append(cc.Base.Progs, sp)
	}
	return cc
}

func propC06(cc c06Case, o *Obs) error {
	mon := Monitors{M4: true, M5: true, M10: true, Probe: 0}
	// 1. uncrashed run of the target alone: number of filesystem calls, state before and after
	solo := cc.Base
	solo.Progs = cc.Base.Progs[:1]
	solo.Sched = SchedSpec{Kind: "windowed", Order: []int{0}}
	solo.Crashes = nil
	r0 := Exec(solo, mon)
	evals := 1
	if r0.Violation != nil {
		o.Evals = evals
		return r0.Violation
	}
	before, after := r0.InitialView, r0.FinalView
	n := r0.YieldsPerProc[0]
	target := cc.Base.Progs[0].Ops[1]
	o.Class("target-" + target.String())
	o.ClassIf(cc.Survivor, "with-survivor")
	o.ClassIf(cc.Survivor && cc.Early > 0, "survivor-handle-predates-the-operation")
	o.ClassIf(storesEqual(before, after) != "", "operation-changes-state")
	o.Count("crash_points", n)
	// 2. every crash point
	for k := 0; k < n; k++ {
		c := cc.Base
		c.Crashes = []Crash{{Proc: 0, At: k}}
		c.Sched = SchedSpec{Kind: "windowed", Order: []int{0, 1}[:len(c.Progs)]}
		if cc.Early > 0 && len(c.Progs) > 1 {
			c.Sched = SchedSpec{Kind: "ops", OpSegs: [][2]int{{1, cc.Early}, {0, 1000}, {1, 1000}}}
		}
		r := Exec(c, mon)
		evals++
		o.Evals = evals
		if r.Violation != nil {
			return annotate(r.Violation, fmt.Sprintf("(process 0 killed before filesystem call %d of %d of Open+%s)", k, n, target))
		}
		if r.Killed != 1 {
			return Failf("engine/kill-missed", "crash point %d of %d was not reached", k, n)
		}
		at := r.ViewAtKill
		db, da := storesEqual(at, before), storesEqual(at, after)
		if db != "" && da != "" {
			return Failf("C06/partial-state", "process killed before filesystem call %d of %d of Open+%s: the committed state is neither the state before the operation (%s) nor the state after it (%s)\n%s",
				k, n, target, db, da, traceTail(r, 14))
		}
		// non-trivial crash points: after the first rename performed by the target operation
		renamed := false
		for _, ev := range r.Trace {
			if ev.Proc == 0 && ev.Op == "rename" && ev.OK {
				renamed = true
			}
		}
		if renamed {
			o.Sub(fmt.Sprintf("k=%d", k))
			o.Nontrivial = true
		}
	}
	return nil
}

func traceTail(r *Result, n int) string {
	tr := r.Trace
	if len(tr) > n {
		tr = tr[len(tr)-n:]
	}
	s := "last events:\n"
	for _, ev := range tr {
		s += "  " + ev.String() + "\n"
	}
	return s
}

func TestC06(t *testing.T) { Run(t, "C06", genC06, propC06) }
