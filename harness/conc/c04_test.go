package conc

import (
	"fmt"
	"os"
	"strconv"
	"testing"

	"pgregory.net/rapid"
	. "verifharness/evid"
)

var allOps = OpWeights{KOpen: 1, KAdd: 8, KAddMulti: 2, KAbandon: 1, KCompactAll: 4, KExpire: 1, KAutoCompact: 2, KRead: 1, KClose: 1, KClean: 1, KCompactRange: 4}

func genC04(t *rapid.T) Case {
	c := Case{Cfg: drawConcCfg(t)}
	hs := c.Cfg.HashSize()
	c.InitAuto, c.Init = drawInit(t, 5, hs, c.Cfg.Exact)
	n := rapid.IntRange(2, 4).Draw(t, "nprocs")
	c.Progs = drawProgs(t, n, 4, []OpWeights{allOps}, hs, c.Cfg.Exact)
	c.Sched = drawSched(t, n)
	c.YieldOnWrite = rapid.IntRange(0, 3).Draw(t, "yieldOnWrite") == 3
	if rapid.IntRange(0, 7).Draw(t, "cancelFamily") == 5 {
		// transactions that cancel each other: compactions with an empty result, stacks that become empty
		cancelFamily(t, &c, hs)
	}
	return c
}

func classify(o *Obs, c Case, r *Result) {
	if os.Getenv("VERIF_TRACE") != "" {
		for _, ev := range r.Trace {
			fmt.Fprintln(os.Stderr, ev.String())
		}
	}
	o.Class("sched-" + c.Sched.Kind)
	o.ClassIf(c.Family != "", "family-"+c.Family)
	o.Class(fmt.Sprintf("procs-%d", len(c.Progs)))
	o.ClassIf(r.Overlap, "ops-overlap")
	o.ClassIf(r.OverlapCommit, "overlap-with-commit-or-compaction")
	o.ClassIf(r.LockContention, "lock-contention")
	o.ClassIf(r.ListChangedMidOp >= 2, "list-changed-twice-while-another-op-in-progress")
	o.ClassIf(r.FailedOps > 0, "some-op-failed")
	o.ClassIf(r.Killed > 0, "with-crash")
	o.ClassIf(r.CrashAfterRename, "crash-after-a-rename")
	o.ClassIf(c.Cfg.Hash == 2, "sha256")
	o.ClassIf(c.YieldOnWrite, "file-writes-are-yield-points")
	o.Count("fs_steps", r.Steps)
	o.Count("list_versions", r.Versions)
}

func propC04(c Case, o *Obs) error {
	r := Exec(c, Monitors{M4: true})
	classify(o, c, r)
	o.Nontrivial = r.OverlapCommit
	return r.Violation
}

func TestC04(t *testing.T) { withEnumeration(t, "C04", Monitors{M4: true}, genC04, propC04) }

var _ = strconv.Itoa
