package conc

import (
	"fmt"

	. "verifharness/evid"
	"verifharness/gen"
	. "verifharness/hist"
)

// fixedTx is a deterministic transaction for the enumerations.
func fixedTx(label string, hs int, del bool) HTx {
	h := make([]byte, hs)
	for i := range h {
		h[i] = byte(len(label) + i)
	}
	tx := HTx{Refs: []HRef{{Name: Str("refs/u/" + label), Kind: gen.KVal, Val: h}, {Name: "refs/heads/main", Kind: gen.KVal, Val: h}}}
	if del {
		tx.Refs[1] = HRef{Name: "refs/heads/dev", Kind: gen.KDel}
	}
	tx.Logs = []HLog{{Name: "refs/heads/main", Sel: -1, New: h, Who: "w", Email: "e", Time: 5, Msg: "m"}}
	return tx
}

func enumOp(kind int, label string, hs int, ab ...int) POp {
	op := POp{Kind: kind}
	if len(ab) == 2 {
		op.A, op.B = ab[0], ab[1]
	}
	switch kind {
	case KAdd:
		op.Txs = []HTx{fixedTx(label, hs, false)}
	case KAddMulti, KAbandon:
		op.Txs = []HTx{fixedTx(label+".0", hs, false), fixedTx(label+".1", hs, true)}
	}
	return op
}

// enumeratePreemptions: exhaustive single pre-emption over all ordered pairs
// of operation kinds on three initial-stack shapes: process A runs until its
// k-th filesystem call, process B runs to completion, A finishes - for every
// k.  Plus double pre-emption for (compaction, Add, Add).
// enumerateSmall is the slice of the enumeration that the quick tier runs: every single
// pre-emption point of five operation pairs on one five-table stack (a few hundred schedules).
func enumerateSmall(rec *Recorder, mon Monitors) (stop bool) {
	cfg := gen.Cfg{BlockSize: 512, Hash: 1, Exact: true, SkipNameCheck: true}
	hs := cfg.HashSize()
	var init []InitOp
	for i := 0; i < 5; i++ {
		tx := fixedTx(fmt.Sprintf("init%d", i), hs, i%2 == 1)
		init = append(init, InitOp{Tx: &tx})
	}
	type opk struct {
		kind int
		auto bool
		a, b int
	}
	pairs := [][2]opk{
		{{KCompactAll, false, 0, 0}, {KAdd, false, 0, 0}},
		{{KAdd, true, 0, 0}, {KCompactAll, false, 0, 0}},
		{{KCompactRange, false, 0, 1}, {KCompactRange, false, 2, 3}},
		{{KAdd, true, 0, 0}, {KAdd, true, 0, 0}},
		{{KOpen, false, 0, 0}, {KCompactAll, false, 0, 0}},
		{{KClean, false, 0, 0}, {KCompactRange, false, 1, 3}},
	}
	total, nontrivial := 0, 0
	for _, pr := range pairs {
		a, b := pr[0], pr[1]
		base := Case{Cfg: cfg, Init: init,
			Progs: []Prog{{Auto: a.auto, Ops: []POp{{Kind: KOpen}, enumOp(a.kind, "A", hs, a.a, a.b)}}, {Auto: b.auto, Ops: []POp{{Kind: KOpen}, enumOp(b.kind, "B", hs, b.a, b.b)}}}}
		probe := base
		probe.Sched = SchedSpec{Kind: "windowed", Order: []int{0, 1}, K: []int{1 << 30}}
		r0 := Exec(probe, mon)
		total++
		if r0.Violation != nil {
			if v := r0.Violation.(*Violation); !rec.Known(v.Sig) {
				rec.Violate(v.Sig, v.Msg, probe)
				return true
			}
		}
		for k := 0; k <= r0.YieldsPerProc[0]; k++ {
			c := base
			c.Sched = SchedSpec{Kind: "windowed", Order: []int{0, 1}, K: []int{k}}
			r := Exec(c, mon)
			total++
			if r.OverlapCommit {
				nontrivial++
			}
			if r.Violation != nil {
				if v := r.Violation.(*Violation); !rec.Known(v.Sig) {
					rec.Violate(v.Sig, v.Msg, c)
					rec.AddEnumerated(total, nontrivial)
					return true
				}
			}
		}
	}
	rec.AddEnumerated(total, nontrivial)
	rec.SetExtra("enumerated_schedules_quick", total)
	return false
}

func enumeratePreemptions(rec *Recorder, id string, mon Monitors, shard, nshards int) (stop bool) {
	kinds := []struct {
		kind int
		auto bool
		a, b int
	}{{KAdd, false, 0, 0}, {KAdd, true, 0, 0}, {KAddMulti, false, 0, 0}, {KCompactAll, false, 0, 0}, {KAutoCompact, false, 0, 0}, {KClean, false, 0, 0},
		{KClose, false, 0, 0}, {KOpen, false, 0, 0}, {KCompactRange, false, 0, 1}, {KCompactRange, false, 2, 3}}
	total, nontrivial := 0, 0
	idx := 0
	for shape := 0; shape < 3; shape++ {
		for hash := 1; hash <= 2; hash++ {
			cfg := gen.Cfg{BlockSize: 512, Hash: hash, Exact: true, SkipNameCheck: true}
			hs := cfg.HashSize()
			var init []InitOp
			ninit := []int{0, 3, 5}[shape]
			for i := 0; i < ninit; i++ {
				tx := fixedTx(fmt.Sprintf("init%d", i), hs, i%2 == 1)
				init = append(init, InitOp{Tx: &tx})
			}
			for _, a := range kinds {
				for _, b := range kinds {
					idx++
					if idx%nshards != shard {
						continue
					}
					base := Case{Cfg: cfg, Init: init,
						Progs: []Prog{{Auto: a.auto, Ops: []POp{{Kind: KOpen}, enumOp(a.kind, "A", hs, a.a, a.b)}}, {Auto: b.auto, Ops: []POp{{Kind: KOpen}, enumOp(b.kind, "B", hs, b.a, b.b)}}}}
					// first run A alone to completion to learn its number of yields
					probe := base
					probe.Sched = SchedSpec{Kind: "windowed", Order: []int{0, 1}, K: []int{1 << 30}}
					r0 := Exec(probe, mon)
					total++
					if r0.Violation != nil {
						if v := r0.Violation.(*Violation); !rec.Known(v.Sig) {
							rec.Violate(v.Sig, v.Msg, probe)
							return true
						}
					}
					nA := r0.YieldsPerProc[0]
					for k := 0; k <= nA; k++ {
						c := base
						c.Sched = SchedSpec{Kind: "windowed", Order: []int{0, 1}, K: []int{k}}
						r := Exec(c, mon)
						total++
						if r.OverlapCommit {
							nontrivial++
						}
						if r.Violation != nil {
							if v := r.Violation.(*Violation); !rec.Known(v.Sig) {
								rec.Violate(v.Sig, v.Msg, c)
								rec.AddEnumerated(total, nontrivial)
								return true
							}
						}
					}
				}
			}
		}
	}
	// double pre-emption: a compaction pre-empted at k by an Add that is itself pre-empted at j by another Add
	idx = 0
	for hash := 1; hash <= 2; hash++ {
		cfg := gen.Cfg{BlockSize: 512, Hash: hash, Exact: true, SkipNameCheck: true}
		hs := cfg.HashSize()
		var init []InitOp
		for i := 0; i < 3; i++ {
			tx := fixedTx(fmt.Sprintf("init%d", i), hs, false)
			init = append(init, InitOp{Tx: &tx})
		}
		base := Case{Cfg: cfg, Init: init, Progs: []Prog{
			{Ops: []POp{{Kind: KOpen}, {Kind: KCompactAll}}},
			{Ops: []POp{{Kind: KOpen}, enumOp(KAdd, "B", hs)}},
			{Ops: []POp{{Kind: KOpen}, enumOp(KAdd, "C", hs)}}}}
		probe := base
		probe.Sched = SchedSpec{Kind: "windowed", Order: []int{0, 1, 2}, K: []int{1 << 30, 1 << 30}}
		r0 := Exec(probe, mon)
		nA := r0.YieldsPerProc[0]
		nB := r0.YieldsPerProc[1]
		for k := 0; k <= nA; k++ {
			for j := 0; j <= nB; j++ {
				idx++
				if idx%nshards != shard {
					continue
				}
				c := base
				c.Sched = SchedSpec{Kind: "windowed", Order: []int{0, 1, 2}, K: []int{k, j}}
				r := Exec(c, mon)
				total++
				if r.OverlapCommit {
					nontrivial++
				}
				if r.Violation != nil {
					if v := r.Violation.(*Violation); !rec.Known(v.Sig) {
						rec.Violate(v.Sig, v.Msg, c)
						rec.AddEnumerated(total, nontrivial)
						return true
					}
				}
			}
		}
	}
	rec.AddEnumerated(total, nontrivial)
	rec.SetExtra("exhaustive_schedules", total)
	rec.SetExtra("exhaustive_done", true)
	return false
}
