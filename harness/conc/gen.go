package conc

import (
	"fmt"

	"pgregory.net/rapid"
	. "verifharness/evid"
	"verifharness/gen"
	. "verifharness/hist"
	"verifharness/model"
)

var sharedPool = SafePool[:5]

// drawTx: every transaction writes a ref unique to it, so that loss and
// duplication are visible, plus records over a small shared pool.
func drawTx(t *rapid.T, label string, hs int, exact bool) HTx {
	tx := HTx{}
	if rapid.IntRange(0, 5).Draw(t, "wideK") == 0 {
		tx.Wide = rapid.IntRange(1, 2).Draw(t, "wide")
	}
	tx.Refs = append(tx.Refs, HRef{Name: Str("refs/u/" + label), Kind: gen.KVal, Val: PoolHash(t, hs)})
	n := rapid.IntRange(0, 2).Draw(t, "nshared")
	for i := 0; i < n; i++ {
		r := HRef{Name: Str(rapid.SampledFrom(sharedPool).Draw(t, "name")), Off: rapid.IntRange(0, 2).Draw(t, "off")}
		switch rapid.IntRange(0, 4).Draw(t, "kind") {
		case 0, 1:
			r.Kind = gen.KDel
		case 2, 3:
			r.Kind = gen.KVal
			r.Val = PoolHash(t, hs)
		case 4:
			r.Kind = gen.KSym
			r.Target = Str(rapid.SampledFrom(sharedPool).Draw(t, "target"))
		}
		tx.Refs = append(tx.Refs, r)
	}
	nl := rapid.IntRange(0, 2).Draw(t, "nlogs")
	for i := 0; i < nl; i++ {
		l := HLog{Name: Str(rapid.SampledFrom(sharedPool).Draw(t, "lname")), Sel: -1}
		if rapid.IntRange(0, 3).Draw(t, "ldel") == 0 {
			l.Del = true
			l.Abs = uint64(rapid.IntRange(1, 8).Draw(t, "abs"))
		} else {
			l.New = PoolHash(t, hs)
			l.Who = "w"
			l.Email = "e@x"
			l.Time = uint64(rapid.IntRange(1, 30).Draw(t, "time"))
			l.Msg = Str(rapid.SampledFrom([]string{"m", "update\n", "x"}).Draw(t, "msg"))
		}
		tx.Logs = append(tx.Logs, l)
	}
	return tx
}

// Weights of operation kinds for a program.
type OpWeights map[int]int

func drawOp(t *rapid.T, w OpWeights, label string, hs int, exact bool) POp {
	total := 0
	kinds := []int{KOpen, KAdd, KAddMulti, KAbandon, KCompactAll, KExpire, KAutoCompact, KRead, KClose, KClean, KCompactRange}
	for _, k := range kinds {
		total += w[k]
	}
	v := rapid.IntRange(0, total-1).Draw(t, "opK")
	kind := KAdd
	for _, k := range kinds {
		if v < w[k] {
			kind = k
			break
		}
		v -= w[k]
	}
	op := POp{Kind: kind}
	switch kind {
	case KAdd:
		op.Txs = []HTx{drawTx(t, label, hs, exact)}
	case KAddMulti, KAbandon:
		// 0 tables: an Addition that is committed (or closed) without having written anything;
		// a transaction may also write no record at all (the table is then skipped)
		m := rapid.SampledFrom([]int{0, 1, 2, 2, 2, 3, 3}).Draw(t, "ntx")
		for j := 0; j < m; j++ {
			if rapid.IntRange(0, 7).Draw(t, "emptyTx") == 3 {
				op.Txs = append(op.Txs, HTx{})
				continue
			}
			op.Txs = append(op.Txs, drawTx(t, fmt.Sprintf("%s.%d", label, j), hs, exact))
		}
		if kind == KAddMulti && m > 0 {
			op.LateClose = rapid.IntRange(0, 2).Draw(t, "lateClose") == 0
		}
	case KCompactRange:
		op.A = rapid.IntRange(0, 7).Draw(t, "a")
		op.B = rapid.IntRange(0, 7).Draw(t, "b")
	case KExpire:
		op.Exp = &model.Expiry{Time: uint64(rapid.IntRange(0, 20).Draw(t, "etime")), Min: uint64(rapid.IntRange(0, 6).Draw(t, "emin"))}
	}
	return op
}

func drawProgs(t *rapid.T, nprocs, maxOps int, w []OpWeights, hs int, exact bool) []Prog {
	var progs []Prog
	for p := 0; p < nprocs; p++ {
		pr := Prog{Auto: rapid.Bool().Draw(t, "auto")}
		n := rapid.IntRange(1, maxOps).Draw(t, "nops")
		ww := w[len(w)-1]
		if p < len(w) {
			ww = w[p]
		}
		for i := 0; i < n; i++ {
			pr.Ops = append(pr.Ops, drawOp(t, ww, fmt.Sprintf("p%d/t%d", p, i), hs, exact))
		}
		progs = append(progs, pr)
	}
	return progs
}

func drawInit(t *rapid.T, max int, hs int, exact bool) (bool, []InitOp) {
	auto := rapid.IntRange(0, 3).Draw(t, "initAuto") == 0
	n := rapid.IntRange(0, max).Draw(t, "ninit")
	var out []InitOp
	for i := 0; i < n; i++ {
		if rapid.IntRange(0, 7).Draw(t, "initCompact") == 0 {
			out = append(out, InitOp{CompactAll: true})
			continue
		}
		tx := drawTx(t, fmt.Sprintf("init/t%d", i), hs, exact)
		out = append(out, InitOp{Tx: &tx})
	}
	return auto, out
}

func drawSched(t *rapid.T, nprocs int) SchedSpec {
	sp := SchedSpec{}
	switch rapid.IntRange(0, 16).Draw(t, "schedK") {
	case 13, 14, 15, 16:
		return drawOpsSched(t, nprocs)
	case 10, 11, 12:
		sp.Kind = "segments"
		n := rapid.IntRange(2, 8).Draw(t, "nsegs")
		for i := 0; i < n; i++ {
			p := rapid.IntRange(0, nprocs-1).Draw(t, "segProc")
			steps := rapid.IntRange(0, 14).Draw(t, "segSteps")
			if rapid.IntRange(0, 2).Draw(t, "segLong") == 0 {
				steps = rapid.IntRange(15, 60).Draw(t, "segStepsLong")
			}
			sp.Segs = append(sp.Segs, [2]int{p, steps})
		}
	case 0, 1:
		sp.Kind = "uniform"
		n := rapid.IntRange(0, 250).Draw(t, "npicks")
		for i := 0; i < n; i++ {
			sp.Picks = append(sp.Picks, rapid.IntRange(0, nprocs-1).Draw(t, "pick"))
		}
	case 2, 3, 4, 5:
		sp.Kind = "pct"
		sp.Prio = drawPerm(t, nprocs)
		d := rapid.IntRange(0, 3).Draw(t, "d")
		for i := 0; i < d; i++ {
			sp.Change = append(sp.Change, rapid.IntRange(1, 120).Draw(t, "change"))
		}
	default:
		sp.Kind = "windowed"
		sp.Order = drawPerm(t, nprocs)
		for i := 0; i < nprocs-1; i++ {
			sp.K = append(sp.K, rapid.IntRange(0, 45).Draw(t, "k"))
		}
	}
	return sp
}

func drawPerm(t *rapid.T, n int) []int {
	p := make([]int, n)
	for i := range p {
		p[i] = i
	}
	for i := n - 1; i > 0; i-- {
		j := rapid.IntRange(0, i).Draw(t, "perm")
		p[i], p[j] = p[j], p[i]
	}
	return p
}

func drawConcCfg(t *rapid.T) gen.Cfg {
	cfg := DrawStackCfg(t)
	cfg.SkipNameCheck = rapid.Bool().Draw(t, "skipname")
	return cfg
}

// drawOpsSched: whole-operation segments plus one or two pre-emptions inside operations.
func drawOpsSched(t *rapid.T, nprocs int) SchedSpec {
	sp := SchedSpec{Kind: "ops"}
	n := rapid.IntRange(2, 8).Draw(t, "nopsegs")
	for i := 0; i < n; i++ {
		sp.OpSegs = append(sp.OpSegs, [2]int{rapid.IntRange(0, nprocs-1).Draw(t, "osProc"), rapid.IntRange(1, 3).Draw(t, "osOps")})
	}
	np := rapid.IntRange(1, 2).Draw(t, "npre")
	for i := 0; i < np; i++ {
		p := rapid.IntRange(0, nprocs-1).Draw(t, "preProc")
		q := rapid.IntRange(0, nprocs-1).Draw(t, "preOther")
		if q == p {
			q = (p + 1) % nprocs
		}
		sp.Pre = append(sp.Pre, [5]int{p, rapid.IntRange(0, 5).Draw(t, "preOp"), rapid.IntRange(0, 30).Draw(t, "preYield"), q, rapid.IntRange(1, 3).Draw(t, "preOps")})
	}
	return sp
}

// cancelFamily rewrites every transaction of the case into one over three names, half of
// them deletions, without logs and without a per-transaction unique ref - so that
// compactions whose result is EMPTY (the list only shrinks), stacks that become empty
// again, and reloads that open no new table actually occur.
func cancelFamily(t *rapid.T, c *Case, hs int) {
	c.Family = "cancelling-transactions"
	names := []string{"refs/heads/a", "refs/heads/b", "HEAD"}
	mk := func() HTx {
		tx := HTx{}
		for i := 0; i < rapid.IntRange(1, 2).Draw(t, "cn"); i++ {
			r := HRef{Name: Str(rapid.SampledFrom(names).Draw(t, "cname")), Kind: gen.KDel}
			if rapid.Bool().Draw(t, "cval") {
				r.Kind, r.Val = gen.KVal, PoolHash(t, hs)
			}
			tx.Refs = append(tx.Refs, r)
		}
		return tx
	}
	c.Init = nil
	for i := 0; i < rapid.IntRange(0, 4).Draw(t, "cinit"); i++ {
		tx := mk()
		c.Init = append(c.Init, InitOp{Tx: &tx})
	}
	for p := range c.Progs {
		for i := range c.Progs[p].Ops {
			op := &c.Progs[p].Ops[i]
			for j := range op.Txs {
				op.Txs[j] = mk()
			}
		}
	}
}
