package conc

import (
	"os"
	"strconv"
	"testing"

	"pgregory.net/rapid"
	. "verifharness/evid"
)

func shardInfo() (int, int) {
	shard, _ := strconv.Atoi(os.Getenv("VERIF_SHARD"))
	nsh, _ := strconv.Atoi(os.Getenv("VERIF_NSHARDS"))
	if nsh < 1 {
		nsh = 1
	}
	return shard, nsh
}

func withEnumeration(t *testing.T, id string, mon Monitors, gen func(*rapid.T) Case, prop func(Case, *Obs) error) {
	rec := NewRecorder(id)
	if os.Getenv("VERIF_REPLAY") == "" && os.Getenv("VERIF_TIER") == "thorough" {
		shard, nsh := shardInfo()
		if enumeratePreemptions(rec, id, mon, shard, nsh) {
			rec.Flush(false)
			t.Fatalf("%s violated by an enumerated schedule", id)
		}
	} else if os.Getenv("VERIF_REPLAY") == "" {
		if enumerateSmall(rec, mon) {
			rec.Flush(false)
			t.Fatalf("%s violated by an enumerated schedule", id)
		}
	}
	RunWith(t, rec, gen, prop)
}

// ---------------- C05: tables.list always names an openable, ordered stack

func drawCrashes(t *rapid.T, nprocs int, maxAt int) []Crash {
	var out []Crash
	if rapid.Bool().Draw(t, "withCrash") {
		n := rapid.IntRange(1, 2).Draw(t, "ncrash")
		seen := map[int]bool{}
		for i := 0; i < n; i++ {
			p := rapid.IntRange(0, nprocs-1).Draw(t, "crashProc")
			if seen[p] {
				continue
			}
			seen[p] = true
			out = append(out, Crash{Proc: p, At: rapid.IntRange(0, maxAt).Draw(t, "crashAt")})
		}
	}
	return out
}

func genC05(t *rapid.T) Case {
	c := genC05base(t)
	switch rapid.IntRange(0, 7).Draw(t, "cancelFamily") {
	case 5:
		cancelFamily(t, &c, c.Cfg.HashSize())
	case 6:
		gcInsideCompaction(t, &c)
	}
	return c
}

// gcInsideCompaction: the garbage-collecting steps the property names (reload, Close, Clean)
// run by a second handle entirely inside the window in which a compaction by the first has
// given the list lock back and is merging - with file writes as yield points in half of the
// cases, so that the merged table is also seen unfinished.
func gcInsideCompaction(t *rapid.T, c *Case) {
	hs := c.Cfg.HashSize()
	c.Family = "gc-step-inside-a-compaction"
	c.InitAuto, c.Init, c.Crashes = false, nil, nil
	for i := 0; i < rapid.IntRange(2, 5).Draw(t, "ninitG"); i++ {
		tx := drawTx(t, "init/g"+strconv.Itoa(i), hs, c.Cfg.Exact)
		c.Init = append(c.Init, InitOp{Tx: &tx})
	}
	comp := drawOp(t, OpWeights{KCompactAll: 3, KCompactRange: 3, KAutoCompact: 1, KExpire: 1, KAdd: 1}, "p0/g", hs, c.Cfg.Exact)
	c.Progs = []Prog{{Auto: true, Ops: []POp{{Kind: KOpen}, comp}}}
	gc := Prog{Ops: []POp{{Kind: KOpen}}}
	for i := 0; i < rapid.IntRange(1, 3).Draw(t, "ngc"); i++ {
		gc.Ops = append(gc.Ops, drawOp(t, OpWeights{KClean: 4, KClose: 2, KOpen: 1, KRead: 2, KAdd: 1, KAbandon: 1}, "p1/g"+strconv.Itoa(i), hs, c.Cfg.Exact))
	}
	c.Progs = append(c.Progs, gc)
	c.YieldOnWrite = rapid.Bool().Draw(t, "yieldOnWriteG")
	maxK := 30
	if c.YieldOnWrite {
		maxK = 60
	}
	k := rapid.IntRange(3, maxK).Draw(t, "k0G")
	// process 0 is pre-empted k filesystem calls into its compaction; process 1 then runs all
	// of its operations; in half of the cases process 1 had opened its handle beforehand
	c.Sched = SchedSpec{Kind: "ops", OpSegs: [][2]int{{0, 2}}, Pre: [][5]int{{0, 1, k, 1, 100}}}
	if rapid.Bool().Draw(t, "gcOpensFirst") {
		c.Sched.OpSegs = [][2]int{{1, 1}, {0, 2}}
	}
	if rapid.IntRange(0, 2).Draw(t, "gcInterleaved") == 0 {
		// both are cut once: the compactor (CompactAll) is stopped around its list rename, the
		// collector (Clean) around its directory listing, then the compactor finishes (its
		// post-commit deletions), then the collector - the order in which a cleanup that has
		// just listed the directory finds files gone.  An open is 1+n filesystem calls for n
		// tables, CompactAll reaches its list rename after another n+8, the collector then opens
		// a one-table stack (2 calls) and Clean lists the directory with its fourth call; the
		// cuts are drawn around those points.
		n := len(c.Init)
		c.Progs[0].Ops[1] = POp{Kind: KCompactAll}
		c.Progs[1].Ops[1] = POp{Kind: KClean}
		c.YieldOnWrite = false
		k0 := 2*n + 9 + rapid.IntRange(-3, 3).Draw(t, "d0G")
		k1 := 6 + rapid.IntRange(-2, 2).Draw(t, "d1G")
		c.Sched = SchedSpec{Kind: "segments", Segs: [][2]int{{0, k0}, {1, k1}, {0, 400}, {1, 400}}}
	}
}

func genC05base(t *rapid.T) Case {
	c := Case{Cfg: drawConcCfg(t)}
	hs := c.Cfg.HashSize()
	c.InitAuto, c.Init = drawInit(t, 6, hs, c.Cfg.Exact)
	n := rapid.IntRange(1, 4).Draw(t, "nprocs")
	c.Progs = drawProgs(t, n, 4, []OpWeights{allOps}, hs, c.Cfg.Exact)
	c.Sched = drawSched(t, n)
	c.Crashes = drawCrashes(t, n, 60)
	c.YieldOnWrite = rapid.IntRange(0, 3).Draw(t, "yieldOnWrite") == 0
	if rapid.IntRange(0, 5).Draw(t, "disjointFamily") == 0 {
		// family: compactions of arbitrary (often disjoint) ranges racing on a deep stack
		c.InitAuto = false
		c.Init = nil
		for i := 0; i < 5; i++ {
			tx := drawTx(t, "init/d"+strconv.Itoa(i), hs, c.Cfg.Exact)
			c.Init = append(c.Init, InitOp{Tx: &tx})
		}
		c.Crashes = nil
		n = rapid.IntRange(2, 3).Draw(t, "nprocsD")
		c.Progs = drawProgs(t, n, 2, []OpWeights{{KCompactRange: 6, KAdd: 2, KCompactAll: 1}}, hs, c.Cfg.Exact)
		for p := range c.Progs {
			c.Progs[p].Ops = append([]POp{{Kind: KOpen}}, c.Progs[p].Ops...)
		}
		c.Sched = drawSched(t, n)
		if rapid.Bool().Draw(t, "explicitDisjoint") {
			lo := rapid.IntRange(0, 1).Draw(t, "lo")
			c.Progs[0].Ops[1] = POp{Kind: KCompactRange, A: lo, B: lo + 1}
			c.Progs[1].Ops[1] = POp{Kind: KCompactRange, A: lo + 2, B: lo + 2 + rapid.IntRange(0, 1).Draw(t, "w")}
			c.Sched = SchedSpec{Kind: "windowed", Order: drawPerm(t, n), K: []int{rapid.IntRange(6, 20).Draw(t, "k0"), rapid.IntRange(0, 30).Draw(t, "k1")}[:n-1]}
		}
	}
	return c
}

func propC05(c Case, o *Obs) error {
	r := Exec(c, Monitors{M5: true, Probe: 7})
	classify(o, c, r)
	o.Nontrivial = r.ListChangedMidOp >= 2 || r.CrashAfterRename
	return r.Violation
}

func TestC05(t *testing.T) { withEnumeration(t, "C05", Monitors{M5: true, Probe: 5}, genC05, propC05) }

// ---------------- C08: locks are exclusive and only released by their owner

var contention = OpWeights{KAdd: 6, KAddMulti: 1, KCompactAll: 5, KAutoCompact: 3, KClean: 1, KAbandon: 1, KCompactRange: 4}

func genC08(t *rapid.T) Case {
	c := Case{Cfg: drawConcCfg(t)}
	hs := c.Cfg.HashSize()
	c.InitAuto = false
	_, c.Init = drawInit(t, 6, hs, c.Cfg.Exact)
	if len(c.Init) < 3 { // always something to compact
		for i := len(c.Init); i < 3; i++ {
			tx := fixedTx("pad"+strconv.Itoa(i), hs, false)
			c.Init = append(c.Init, InitOp{Tx: &tx})
		}
	}
	n := rapid.IntRange(2, 4).Draw(t, "nprocs")
	c.Progs = drawProgs(t, n, 4, []OpWeights{contention}, hs, c.Cfg.Exact)
	c.Sched = drawSched(t, n)
	if rapid.IntRange(0, 4).Draw(t, "emptyAdditionFamily") == 2 {
		// family: an Addition that is committed and closed without having written a table (the
		// lock is taken and given back without any commit), next to writers that want the lock;
		// step-granular segments so that the other writer is inside its transaction in between
		p := rapid.IntRange(0, n-1).Draw(t, "emptyProc")
		at := rapid.IntRange(0, len(c.Progs[p].Ops)).Draw(t, "emptyAt")
		ops := append([]POp{}, c.Progs[p].Ops[:at]...)
		ops = append(ops, POp{Kind: KAddMulti})
		c.Progs[p].Ops = append(ops, c.Progs[p].Ops[at:]...)
		q := (p + 1) % n
		c.Progs[q].Ops = append([]POp{drawOp(t, OpWeights{KAdd: 3, KAddMulti: 1}, "p"+strconv.Itoa(q)+"/lockwanter", hs, c.Cfg.Exact)}, c.Progs[q].Ops...)
		c.Sched = SchedSpec{Kind: "segments"}
		for i := 0; i < rapid.IntRange(3, 8).Draw(t, "nsegsE"); i++ {
			who := p
			if i%2 == 1 {
				who = q
			}
			c.Sched.Segs = append(c.Sched.Segs, [2]int{who, rapid.IntRange(1, 14).Draw(t, "segStepsE")})
		}
	}
	return c
}

func propC08(c Case, o *Obs) error {
	r := Exec(c, Monitors{M8: true})
	classify(o, c, r)
	o.Nontrivial = r.LockContention
	return r.Violation
}

func TestC08(t *testing.T) { withEnumeration(t, "C08", Monitors{M8: true}, genC08, propC08) }

// ---------------- C10: a handle's view is one committed snapshot under churn

var readerOps = OpWeights{KOpen: 3, KRead: 4, KAdd: 3, KAutoCompact: 1}
var writerOps = OpWeights{KAdd: 5, KCompactAll: 5, KAutoCompact: 2, KAddMulti: 1, KExpire: 1, KCompactRange: 4}

func genC10(t *rapid.T) Case {
	c := genC10base(t)
	if rapid.IntRange(0, 4).Draw(t, "cancelFamily") == 2 {
		// compactions with an empty result: a new list version that brings no new table
		cancelFamily(t, &c, c.Cfg.HashSize())
	}
	return c
}

func genC10base(t *rapid.T) Case {
	c := Case{Cfg: drawConcCfg(t)}
	hs := c.Cfg.HashSize()
	_, c.Init = drawInit(t, 6, hs, c.Cfg.Exact)
	if len(c.Init) < 2 {
		for i := len(c.Init); i < 2; i++ {
			tx := fixedTx("pad"+strconv.Itoa(i), hs, false)
			c.Init = append(c.Init, InitOp{Tx: &tx})
		}
	}
	n := rapid.IntRange(2, 4).Draw(t, "nprocs")
	c.Progs = drawProgs(t, n, 5, []OpWeights{readerOps, writerOps}, hs, c.Cfg.Exact)
	c.Sched = drawSched(t, n)
	if rapid.IntRange(0, 2).Draw(t, "churnFamily") == 0 {
		// family: a handle that keeps reloading (every Add of it is stale) while one writer
		// alternates partial compactions and additions, so that the reloader is several
		// versions behind and the list it read names tables that disappear before it opens them
		c.InitAuto = false
		c.Init = nil
		for i := 0; i < rapid.IntRange(3, 5).Draw(t, "ninitC"); i++ {
			tx := drawTx(t, "init/c"+strconv.Itoa(i), hs, c.Cfg.Exact)
			c.Init = append(c.Init, InitOp{Tx: &tx})
		}
		reader := Prog{Ops: []POp{{Kind: KOpen}}}
		for i := 0; i < rapid.IntRange(1, 4).Draw(t, "nreaderAdds"); i++ {
			reader.Ops = append(reader.Ops, drawOp(t, OpWeights{KAdd: 4, KRead: 1, KAutoCompact: 1}, "p0/c"+strconv.Itoa(i), hs, c.Cfg.Exact))
		}
		writer := Prog{}
		for i := 0; i < rapid.IntRange(3, 7).Draw(t, "nwriterOps"); i++ {
			writer.Ops = append(writer.Ops, drawOp(t, OpWeights{KCompactRange: 5, KAdd: 4, KCompactAll: 1}, "p1/c"+strconv.Itoa(i), hs, c.Cfg.Exact))
		}
		c.Progs = []Prog{reader, writer}
		n = 2
		if rapid.IntRange(0, 3).Draw(t, "tailFamily") == 1 {
			// sub-family: the writer merges the two oldest tables and appends k tables; then - while
			// the reloading reader sits between reading the list and opening the last tables -
			// it merges the newest two. The reader has by then put the reader of the merged
			// bottom table where its old first reader was, when a later table turns out to be
			// gone, and must retry from a clean slate.
			k := rapid.IntRange(2, 3).Draw(t, "tailAdds")
			writer = Prog{Ops: []POp{{Kind: KCompactRange, A: 0, B: 1}}}
			for i := 0; i < k; i++ {
				writer.Ops = append(writer.Ops, drawOp(t, OpWeights{KAdd: 1}, "p1/tail"+strconv.Itoa(i), hs, c.Cfg.Exact))
			}
			writer.Ops = append(writer.Ops, POp{Kind: KCompactRange, A: -2, B: -1})
			writer.Ops = append(writer.Ops, drawOp(t, OpWeights{KAdd: 2, KCompactRange: 1}, "p1/tailx", hs, c.Cfg.Exact))
			reader = Prog{Ops: []POp{{Kind: KOpen}, drawOp(t, OpWeights{KAdd: 1}, "p0/tail", hs, c.Cfg.Exact), {Kind: KRead},
				drawOp(t, OpWeights{KAdd: 1}, "p0/tail2", hs, c.Cfg.Exact)}}
			c.Progs = []Prog{reader, writer}
			c.Sched = SchedSpec{Kind: "ops",
				OpSegs: [][2]int{{0, 1}, {1, k + 1}, {0, 4}, {1, 9}},
				Pre:    [][5]int{{0, 1, rapid.IntRange(3, 9).Draw(t, "tailYield"), 1, 1}}}
			return c
		}
		if rapid.Bool().Draw(t, "churnOps") {
			// operation-aligned: reader opens, writer runs a few operations, the reader's next
			// operation is pre-empted at a drawn yield while the writer runs one or two more
			c.Sched = SchedSpec{Kind: "ops",
				OpSegs: [][2]int{{0, 1}, {1, rapid.IntRange(1, 3).Draw(t, "wOps")}, {0, 4}, {1, 9}},
				Pre:    [][5]int{{0, rapid.IntRange(1, 2).Draw(t, "rOp"), rapid.IntRange(0, 12).Draw(t, "rYield"), 1, rapid.IntRange(1, 2).Draw(t, "wOps2")}}}
			return c
		}
		c.Sched = SchedSpec{Kind: "segments"}
		for i := 0; i < rapid.IntRange(3, 9).Draw(t, "nsegsC"); i++ {
			steps := rapid.IntRange(0, 12).Draw(t, "segStepsC")
			if i%2 == 1 {
				steps = rapid.IntRange(5, 70).Draw(t, "segStepsW")
			}
			c.Sched.Segs = append(c.Sched.Segs, [2]int{i % 2, steps})
		}
		return c
	}
	if c.Sched.Kind == "windowed" && rapid.Bool().Draw(t, "readerFirst") {
		// place the writers inside the reader's open: the reader is pre-empted early
		for i, id := range c.Sched.Order {
			if id == 0 {
				c.Sched.Order[0], c.Sched.Order[i] = c.Sched.Order[i], c.Sched.Order[0]
			}
		}
		c.Sched.K[0] = rapid.IntRange(0, 12).Draw(t, "k0")
	}
	return c
}

func propC10(c Case, o *Obs) error {
	r := Exec(c, Monitors{M10: true})
	classify(o, c, r)
	o.ClassIf(r.StaleTableUnlinkedBeforeOpen, "listed-table-unlinked-by-another-process")
	o.ClassIf(r.ReadAfterForeignDelete, "read-after-foreign-delete")
	o.Nontrivial = r.StaleTableUnlinkedBeforeOpen || r.ReadAfterForeignDelete
	return r.Violation
}

func TestC10(t *testing.T) { withEnumeration(t, "C10", Monitors{M10: true}, genC10, propC10) }
