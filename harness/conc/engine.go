// Package conc runs several stack handles ("processes") of the real,
// source-rewritten stack code against one real directory under a scheduler
// that owns every interleaving at filesystem-call granularity, and checks
// invariants over the history after every single filesystem operation.
// It only builds against the instrumented flavour of the scratch copy.
package conc

import (
	"fmt"
	"os"
	"path/filepath"
	"runtime"
	"sort"
	"strings"

	"github.com/google/reftable"
	"github.com/google/reftable/verifvfs"
	. "verifharness/evid"
	"verifharness/gen"
	. "verifharness/hist"
	"verifharness/model"
	"verifharness/specdec"
)

// Operation kinds of a program.
const (
	KOpen = iota // (re)open the process's handle
	KAdd
	KAddMulti // NewAddition, Add per transaction, Commit, Close
	KAbandon  // NewAddition, Add per transaction, Close (no Commit)
	KCompactAll
	KExpire
	KAutoCompact
	KRead
	KClose
	KClean
	KCompactRange // compaction of an arbitrary contiguous range (through the export shim)
)

var kindNames = []string{"Open", "Add", "AddMulti", "Abandon", "CompactAll", "Expire", "AutoCompact", "Read", "Close", "Clean", "CompactRange"}

type POp struct {
	Kind int           `json:"k"`
	A    int           `json:"a,omitempty"`   // KCompactRange: first = A mod n (negative: n+A, i.e. from the top)
	B    int           `json:"b,omitempty"`   // KCompactRange: last = B mod n
	Bad  int           `json:"bad,omitempty"` // KAdd only: 1 = also writes an invalid ref name, 2 = limits start at 1 (too low)
	Txs  []HTx         `json:"txs,omitempty"`
	Exp  *model.Expiry `json:"exp,omitempty"`
	// LateClose (KAddMulti that commits at least one table): the Addition's Close is not called
	// right after Commit but after the process's NEXT operation has run - the documented
	// idiom `defer tr.Close()` with more work before the function returns.  On a committed
	// Addition Close has nothing left to release.
	LateClose bool `json:"late_close,omitempty"`
}

func (o POp) String() string { return kindNames[o.Kind] }

type Prog struct {
	Auto bool  `json:"auto,omitempty"`
	Ops  []POp `json:"ops"`
}

type InitOp struct {
	Tx         *HTx `json:"tx,omitempty"`
	CompactAll bool `json:"compact_all,omitempty"`
}

// Crash kills process Proc immediately before its At-th filesystem call (0-based).
type Crash struct {
	Proc int `json:"proc"`
	At   int `json:"at"`
}

type SchedSpec struct {
	Kind   string   `json:"kind"` // uniform | pct | windowed
	Picks  []int    `json:"picks,omitempty"`
	Prio   []int    `json:"prio,omitempty"`
	Change []int    `json:"change,omitempty"`
	Order  []int    `json:"order,omitempty"`
	K      []int    `json:"k,omitempty"`
	Segs   [][2]int `json:"segs,omitempty"` // segments: (process, number of steps), then round robin
	// "ops" strategy: OpSegs are (process, number of whole operations) segments; Pre are
	// pre-emptions (process, operation index, yields into that operation, other process,
	// whole operations the other process runs before the pre-empted one resumes)
	OpSegs [][2]int `json:"op_segs,omitempty"`
	Pre    [][5]int `json:"pre,omitempty"`
}

type Case struct {
	Cfg          gen.Cfg   `json:"cfg"`
	InitAuto     bool      `json:"init_auto,omitempty"`
	Init         []InitOp  `json:"init,omitempty"`
	Progs        []Prog    `json:"progs"`
	Sched        SchedSpec `json:"sched"`
	Crashes      []Crash   `json:"crashes,omitempty"`
	YieldOnWrite bool      `json:"yield_on_write,omitempty"`
	// Family names the generator family the case was drawn from (class statistics only)
	Family string `json:"family,omitempty"`
}

// Monitors selects the invariants to evaluate.
type Monitors struct {
	M4, M5, M8, M10, M16 bool
	Probe                int // M5: pass-through NewStack probe every Probe steps (0: only at the end)
}

type readResult struct {
	names string
	refs  []gen.Ref
	logs  []gen.Log
	err   error
	valid bool
}

// opRecord is shared between the process running the operation and the
// monitors (exactly one goroutine runs at a time).
type opRecord struct {
	proc, index int
	op          POp
	tables      []model.Table // concrete tables the op's transactions wrote
	committed   bool
	started     bool
	ended       bool
	err         error
	panicked    interface{}
	read        readResult
	handleOpen  bool
	fsSteps     int
	overlapped  bool
}

type version struct {
	names []string
	view  *Store
	step  int
	proc  int
}

// Result describes one execution.
type Result struct {
	Steps                        int
	Versions                     int
	Overlap                      bool // two operations of different processes overlapped
	OverlapCommit                bool // ... and one of them was a compaction or a commit
	LockContention               bool
	ListChangedMidOp             int // list transitions while another process was mid-operation
	CrashAfterRename             bool
	StaleTableUnlinkedBeforeOpen bool
	ReadAfterForeignDelete       bool
	FailedOps                    int
	Killed                       int
	YieldsPerProc                []int
	Trace                        []verifvfs.Event
	Violation                    error
	ViewAtKill                   *Store // committed state (decoded from disk) at the moment of the first kill
	FinalView                    *Store
	InitialView                  *Store
	KilledAfterOwnRename         bool
}

type engine struct {
	c     Case
	mon   Monitors
	dir   string
	cfg   reftable.Config
	sched *verifvfs.Sched
	procs []*verifvfs.Proc
	ops   [][]*opRecord
	cur   []*opRecord // current (started, not ended) op per proc

	tabCache map[string]*model.Table
	tabErr   map[string]string
	versions []version
	lastSeen []int // M10: last version index observed by each proc

	lockOwner       map[string]int // M8
	created         map[string]int // M16: lock/temp files -> creator
	everCommitted   bool
	traceDone       int
	res             Result
	stepsSinceProbe int
	// names each proc read from tables.list most recently (for the C10 class)
	lastListRead map[int][]string
	handles      []*reftable.Stack // still open when their program ended
}

func (e *engine) fail(err error) {
	if e.res.Violation == nil {
		e.res.Violation = err
	}
}

// ---------- disk observation through the independent decoder

func specToModel(f *specdec.File) *model.Table {
	t := &model.Table{Min: f.Min, Max: f.Max}
	for _, r := range f.Refs {
		g := gen.Ref{Name: Str(r.Name), Idx: r.Idx, Kind: r.Kind, Target: Str(r.Target)}
		if r.Val != nil {
			g.Val = Hex(r.Val)
		}
		if r.Peeled != nil {
			g.Peeled = Hex(r.Peeled)
		}
		t.Refs = append(t.Refs, g)
	}
	for _, l := range f.Logs {
		g := gen.Log{Name: Str(l.Name), Idx: l.Idx, Del: l.Del, Who: Str(l.Who), Email: Str(l.Email), Time: l.Time, TZ: l.TZ, Msg: Str(l.Msg)}
		if l.Old != nil {
			g.Old = Hex(l.Old)
		}
		if l.New != nil {
			g.New = Hex(l.New)
		}
		t.Logs = append(t.Logs, g)
	}
	return t
}

// table decodes a table file (cached: tables are immutable once in place).
func (e *engine) table(name string) (*model.Table, string) {
	if t, ok := e.tabCache[name]; ok {
		// decoded before (tables are immutable), but it must still be there
		if _, err := os.Lstat(filepath.Join(e.dir, name)); err != nil {
			return nil, "missing: " + err.Error()
		}
		return t, ""
	}
	data, err := os.ReadFile(filepath.Join(e.dir, name))
	if err != nil {
		return nil, "missing: " + err.Error()
	}
	f := specdec.Decode(data, e.c.Cfg.HashSize(), !e.c.Cfg.Unaligned)
	if len(f.Errors) > 0 {
		return nil, "malformed: " + strings.Join(f.Errors, "; ")
	}
	t := specToModel(f)
	e.tabCache[name] = t
	return t, ""
}

// checkList is M5: every listed table exists, is well formed, and the
// update-index ranges are strictly increasing.
func (e *engine) checkList(names []string, when string) error {
	var lastMax uint64
	for i, n := range names {
		t, bad := e.table(n)
		if t == nil {
			return Failf("C05/listed-table-"+strings.SplitN(bad, ":", 2)[0], "%s: tables.list names %q which is %s (list %v, dir %v)", when, n, bad, names, ListDir(e.dir))
		}
		if t.Min > t.Max {
			return Failf("C05/limits", "%s: table %q has limits [%d,%d]", when, n, t.Min, t.Max)
		}
		if i > 0 && t.Min <= lastMax {
			return Failf("C05/order", "%s: table %q has min %d, the table before it has max %d (list %v)", when, n, t.Min, lastMax, names)
		}
		lastMax = t.Max
	}
	return nil
}

func (e *engine) viewOf(names []string) (*Store, error) {
	var tabs []model.Table
	for _, n := range names {
		t, bad := e.table(n)
		if t == nil {
			return nil, fmt.Errorf("table %q is %s", n, bad)
		}
		tabs = append(tabs, *t)
	}
	s := NewStore()
	for _, r := range model.OverlayRefs(tabs, true) {
		s.Refs[string(r.Name)] = r
	}
	for _, l := range model.OverlayLogs(tabs, true) {
		s.Logs[l.Key()] = l
	}
	return s, nil
}

func storesEqual(a, b *Store) string {
	if d := DiffRefs(a.SortedRefs(), b.SortedRefs()); d != "" {
		return "refs: " + d
	}
	if d := DiffLogs(a.SortedLogs(), b.SortedLogs()); d != "" {
		return "logs: " + d
	}
	return ""
}

// ---------- monitors over trace events

func isLock(p string) bool { return strings.HasSuffix(p, ".lock") }
func isTemp(p string) bool {
	return strings.HasSuffix(p, ".reftmp") || strings.Contains(filepath.Base(p), "tmp")
}

func (e *engine) onEvent(ev verifvfs.Event) {
	if ev.Mark {
		e.onMark(ev)
		return
	}
	p := ev.Proc
	if op := e.cur[p]; op != nil {
		op.fsSteps++
		for q, other := range e.cur {
			if q != p && other != nil && other.fsSteps > 0 {
				op.overlapped, other.overlapped = true, true
				e.res.Overlap = true
				if isCommitting(op.op.Kind) || isCommitting(other.op.Kind) {
					e.res.OverlapCommit = true
				}
			}
		}
	}
	if ev.Killed {
		return
	}
	listPath := filepath.Join(e.dir, "tables.list")
	_ = listPath
	switch ev.Op {
	case "openfile", "tempfile", "create":
		path := ev.Paths[0]
		excl := ev.Flags&os.O_CREATE != 0
		if ev.OK && excl && (isLock(path) || isTemp(path)) {
			if e.mon.M8 && isLock(path) {
				if owner, held := e.lockOwner[path]; held {
					e.fail(Failf("C08/double-acquire", "step %d: process %d created lock %s while process %d holds it", ev.Step, p, filepath.Base(path), owner))
				}
			}
			if isLock(path) {
				e.lockOwner[path] = p
			}
			e.created[path] = p
		}
		if !ev.OK && isLock(path) && strings.Contains(ev.Err, "exists") {
			e.res.LockContention = true
		}
	case "remove", "rename":
		path := ev.Paths[0]
		if ev.OK {
			if isLock(path) {
				if owner, held := e.lockOwner[path]; held && owner != p && e.mon.M8 {
					e.fail(Failf("C08/foreign-release", "step %d: process %d %sd lock file %s which is held by process %d\n%s", ev.Step, p, ev.Op, filepath.Base(path), owner, e.tail(12)))
				}
				delete(e.lockOwner, path)
			}
			delete(e.created, path)
			if ev.Op == "remove" && strings.HasSuffix(path, ".ref") {
				// C10 class: a table some handle holds or is about to open was deleted
				base := filepath.Base(path)
				for q, names := range e.lastListRead {
					if q != p && containsStr(names, base) {
						e.res.StaleTableUnlinkedBeforeOpen = true
					}
				}
			}
		}

		if ev.Op == "rename" && ev.OK && isLock(ev.Paths[1]) {
			e.lockOwner[ev.Paths[1]] = p
		}
	case "readfile":
		if ev.OK && ev.Paths[0] == listPath {
			e.lastListRead[p] = ReadList(e.dir)
		}
	}
	// The committed state is whatever tables.list says NOW, however it got there (rename of
	// the lock file, unlink, truncation, a write in place): compare after every operation.
	names := ReadList(e.dir)
	if fmt.Sprint(names) != fmt.Sprint(e.versions[len(e.versions)-1].names) {
		e.onListChange(ev)
	}
	if e.mon.M5 {
		if err := e.checkList(names, fmt.Sprintf("after step %d (%v)", ev.Step, ev)); err != nil {
			e.fail(annotate(err, e.tail(14)))
		}
	}
}

func isCommitting(k int) bool {
	return k == KAdd || k == KAddMulti || k == KCompactAll || k == KExpire || k == KAutoCompact || k == KCompactRange
}

func containsStr(ss []string, s string) bool {
	for _, x := range ss {
		if x == s {
			return true
		}
	}
	return false
}

func annotate(err error, extra string) error {
	if v, ok := err.(*Violation); ok {
		return &Violation{Sig: v.Sig, Msg: v.Msg + "\n" + extra}
	}
	return err
}

// tail renders the last n trace events.
func (e *engine) tail(n int) string {
	tr := e.sched.Trace
	if len(tr) > n {
		tr = tr[len(tr)-n:]
	}
	var sb strings.Builder
	sb.WriteString("last events:\n")
	for _, ev := range tr {
		sb.WriteString("  " + ev.String() + "\n")
	}
	return sb.String()
}

// onListChange: a rename onto tables.list succeeded.
func (e *engine) onListChange(ev verifvfs.Event) {
	e.everCommitted = true
	names := ReadList(e.dir)
	p := ev.Proc
	for q, other := range e.cur {
		if q != p && other != nil && other.fsSteps > 0 {
			e.res.ListChangedMidOp++
		}
	}
	view, err := e.viewOf(names)
	if err != nil {
		// M5 reports the broken list; without a view M4 cannot judge this transition
		if e.mon.M4 || e.mon.M5 {
			e.fail(annotate(Failf("C05/listed-table-unreadable", "step %d: new tables.list %v: %v", ev.Step, names, err), e.tail(14)))
		}
		e.versions = append(e.versions, version{names: names, view: e.versions[len(e.versions)-1].view, step: ev.Step, proc: p})
		return
	}
	old := e.versions[len(e.versions)-1].view
	oldNames := e.versions[len(e.versions)-1].names
	e.versions = append(e.versions, version{names: names, view: view, step: ev.Step, proc: p})
	// A transaction whose records change no view (deleting a name nobody holds) commits
	// invisibly; it is recognised by the list growing by exactly its tables.
	invisibleCommit := func() bool {
		op := e.cur[p]
		if op == nil || (op.op.Kind != KAdd && op.op.Kind != KAddMulti) || op.committed || len(op.tables) == 0 {
			return false
		}
		if len(names) != len(oldNames)+len(op.tables) {
			return false
		}
		for i := range oldNames {
			if names[i] != oldNames[i] {
				return false
			}
		}
		want := old.Clone()
		for _, t := range op.tables {
			want.Apply(t.Refs, t.Logs)
		}
		return storesEqual(want, old) == ""
	}
	if !e.mon.M4 {
		// still track commits for the success/committed relation
		if op := e.cur[p]; op != nil && (op.op.Kind == KAdd || op.op.Kind == KAddMulti) && !op.committed && (storesEqual(view, old) != "" || invisibleCommit()) {
			op.committed = true
		}
		return
	}
	if storesEqual(view, old) == "" {
		if invisibleCommit() {
			e.cur[p].committed = true
		}
		return // compaction (or anything else) that leaves the view unchanged
	}
	op := e.cur[p]
	if op != nil && (op.op.Kind == KAdd || op.op.Kind == KAddMulti) && !op.committed && len(op.tables) > 0 {
		want := old.Clone()
		for _, t := range op.tables {
			want.Apply(t.Refs, t.Logs)
		}
		if d := storesEqual(view, want); d == "" {
			op.committed = true
			return
		} else {
			e.fail(annotate(Failf("C04/commit-altered", "step %d: process %d committed its transaction, but the new state is not old state + transaction: %s\nnew list %v", ev.Step, p, d, names), e.tail(16)))
			return
		}
	}
	if op != nil && op.op.Kind == KExpire {
		// An expiring compaction only rewrites the tables it locked; tables committed by
		// other processes in the meantime keep their entries.  So: refs unchanged, nothing
		// new appears, everything that is not expired stays, and whatever went is expired.
		if DiffRefs(view.SortedRefs(), old.SortedRefs()) == "" {
			ok := true
			for k, l := range view.Logs {
				if o, had := old.Logs[k]; !had || !o.Equal(l) {
					ok = false
				}
			}
			for _, l := range model.Expire(old.SortedLogs(), *op.op.Exp) {
				if _, kept := view.Logs[l.Key()]; !kept {
					ok = false
				}
			}
			if ok {
				return
			}
		}
	}
	what := "no operation in progress"
	if op != nil {
		what = "inside " + op.op.String()
	}
	e.fail(annotate(Failf("C04/lost-or-phantom-update", "step %d: process %d (%s) replaced tables.list and the committed state changed without a committing transaction: %s\nold list %v\nnew list %v",
		ev.Step, p, what, storesEqual(view, old), e.versions[len(e.versions)-2].names, names), e.tail(20)))
}

func (e *engine) onMark(ev verifvfs.Event) {
	p := ev.Proc
	switch ev.Op {
	case "op-start":
		var idx int
		fmt.Sscanf(ev.Data, "%d", &idx)
		e.cur[p] = e.ops[p][idx]
	case "op-end":
		op := e.cur[p]
		e.cur[p] = nil
		if op == nil {
			return
		}
		e.onOpEnd(ev, op)
	}
}

func lockFailure(err error) bool { return err == reftable.ErrLockFailure }

func (e *engine) onOpEnd(ev verifvfs.Event, op *opRecord) {
	p := op.proc
	what := fmt.Sprintf("step %d: process %d %s", ev.Step, p, op.op)
	if op.err != nil {
		e.res.FailedOps++
	}
	if op.panicked != nil {
		e.fail(annotate(Failf("panic/"+op.op.String(), "%s panicked: %v", what, op.panicked), e.tail(12)))
		return
	}
	if e.mon.M4 {
		switch op.op.Kind {
		case KAdd, KAddMulti:
			nonEmpty := len(op.tables) > 0
			switch {
			case op.err == nil && nonEmpty && !op.committed:
				e.fail(annotate(Failf("C04/success-without-commit", "%s returned success but its transaction was never committed", what), e.tail(16)))
			case op.err != nil && op.committed:
				e.fail(annotate(Failf("C04/failure-after-commit", "%s returned %q although its transaction was committed", what, op.err), e.tail(16)))
			case op.err != nil && !lockFailure(op.err):
				e.fail(annotate(Failf("C04/unexpected-error", "%s failed with %q: without I/O faults only ErrLockFailure (or rejection of the content) is allowed", what, op.err), e.tail(16)))
			}
		case KOpen:
			if op.err != nil {
				e.fail(annotate(Failf("C04/open-failed", "%s failed: %v", what, op.err), e.tail(16)))
			}
		case KCompactAll, KExpire, KAutoCompact, KClean, KAbandon, KCompactRange:
			if op.err != nil && !lockFailure(op.err) {
				e.fail(annotate(Failf("C04/unexpected-error", "%s failed with %q: without I/O faults only ErrLockFailure is allowed", what, op.err), e.tail(16)))
			}
		}
	}
	if e.mon.M10 && op.read.valid {
		e.checkRead(what, p, op)
	}
	if e.mon.M16 && op.op.Kind == KClean && op.err != nil && !lockFailure(op.err) {
		e.fail(annotate(Failf("C16/clean-failed", "%s failed with %q (only a leftover lock or a stale handle may make it fail, with ErrLockFailure)", what, op.err), e.tail(16)))
		return
	}
	if e.mon.M16 {
		for path, creator := range e.created {
			if creator == p {
				if _, err := os.Lstat(path); err == nil {
					e.fail(annotate(Failf("C16/leftover-after-call", "%s returned (err=%v) but %s, created by this handle, still exists", what, op.err, filepath.Base(path)), e.tail(16)))
					return
				}
			}
		}
	}
}

// checkRead is M10: the handle shows exactly one committed version, and never goes back.
func (e *engine) checkRead(what string, p int, op *opRecord) {
	r := op.read
	if r.err != nil {
		e.fail(annotate(Failf("C10/read-failed", "%s: reading through the handle afterwards failed: %v (handle tables %s)", what, r.err, r.names), e.tail(16)))
		return
	}
	found := -1
	for j := len(e.versions) - 1; j >= 0; j-- {
		if fmt.Sprintf("%v", e.versions[j].names) == r.names {
			found = j
			break
		}
	}
	if found < 0 {
		e.fail(annotate(Failf("C10/not-a-version", "%s: the handle holds tables %s, which no version of tables.list ever named", what, r.names), e.tail(16)))
		return
	}
	got := NewStore()
	for _, x := range r.refs {
		got.Refs[string(x.Name)] = x
	}
	for _, x := range r.logs {
		got.Logs[x.Key()] = x
	}
	if d := storesEqual(got, e.versions[found].view); d != "" {
		e.fail(annotate(Failf("C10/mixed-view", "%s: the handle names version %d (%s) but shows different content: %s", what, found, r.names, d), e.tail(16)))
		return
	}
	if found < e.lastSeen[p] {
		e.fail(annotate(Failf("C10/went-back", "%s: the handle shows version %d after having shown version %d", what, found, e.lastSeen[p]), e.tail(16)))
		return
	}
	e.lastSeen[p] = found
	if found < len(e.versions)-1 {
		// the handle is stale: are tables it holds already deleted?
		for _, n := range e.versions[found].names {
			if _, err := os.Lstat(filepath.Join(e.dir, n)); err != nil {
				e.res.ReadAfterForeignDelete = true
			}
		}
	}
}

// ---------- process bodies

func (e *engine) body(p int) func() {
	return func() {
		var st *reftable.Stack
		prog := e.c.Progs[p]
		defer func() {
			// a killed process simply stops; its descriptors are released
			if st != nil && e.procs[p].Killed() {
				st.VerifCloseReadersOnly()
				st = nil
			}
			if st != nil {
				e.handles = append(e.handles, st)
			}
		}()
		var pending *reftable.Addition // committed Addition whose Close is still to come
		for i := range prog.Ops {
			rec := e.ops[p][i]
			rec.started = true
			verifvfs.Mark("op-start", fmt.Sprintf("%d %s", i, rec.op))
			late := pending
			pending = nil
			e.runOp(p, &st, prog, rec, &pending)
			if late != nil {
				verifvfs.Mark("late-close", "Close of the Addition committed by the previous operation")
				late.Close()
			}
			if pending != nil && i == len(prog.Ops)-1 {
				pending.Close()
				pending = nil
			}
			rec.ended = true
			// M10: what does the handle show now?
			if st != nil && rec.op.Kind != KClose {
				rec.read.valid = true
				rec.read.names = st.String()
				func() {
					defer func() {
						if r := recover(); r != nil {
							rec.read.err = fmt.Errorf("panic while reading: %v", r)
						}
					}()
					rec.read.refs, rec.read.logs, rec.read.err = ViewOf(st)
				}()
			}
			verifvfs.Mark("op-end", fmt.Sprintf("%d %s err=%v", i, rec.op, rec.err))
		}
	}
}

func (e *engine) runOp(p int, stp **reftable.Stack, prog Prog, rec *opRecord, pending **reftable.Addition) {
	defer func() {
		if r := recover(); r != nil {
			if verifvfs.IsCrash(r) {
				panic(r) // the process was killed: keep unwinding
			}
			rec.panicked = fmt.Sprintf("%v\n%s", r, shortStack())
		}
	}()
	st := *stp
	open := func() error {
		s, err := reftable.NewStack(e.dir, e.cfg)
		if err != nil {
			return err
		}
		s.VerifSetAutoCompact(prog.Auto)
		*stp = s
		st = s
		return nil
	}
	if st == nil && rec.op.Kind != KOpen {
		if err := open(); err != nil {
			rec.err = fmt.Errorf("implicit open: %v", err)
			return
		}
	}
	switch rec.op.Kind {
	case KOpen:
		if st != nil {
			st.Close()
			*stp = nil
			st = nil
		}
		rec.err = open()
	case KAdd:
		tx := rec.op.Txs[0]
		rec.err = st.Add(func(w *reftable.Writer) error {
			min := st.NextUpdateIndex() + uint64(tx.Gap)
			if rec.op.Bad == 2 {
				min = 1
			}
			refs, logs, max := tx.Resolve(min, NewStore(), e.c.Cfg)
			if rec.op.Bad == 1 {
				refs = gen.SortRefs(append(refs, gen.Ref{Name: "refs/heads//bad", Idx: min, Kind: gen.KSym, Target: "HEAD"}))
			}
			if len(refs)+len(logs) > 0 {
				rec.tables = []model.Table{{Min: min, Max: max, Refs: refs, Logs: NormLogs(logs, e.c.Cfg)}}
			}
			return WriteFn(min, max, refs, logs)(w)
		})
	case KAddMulti, KAbandon:
		tr, err := st.NewAddition()
		if err != nil {
			rec.err = err
			return
		}
		next := st.NextUpdateIndex()
		for _, tx := range rec.op.Txs {
			min := next + uint64(tx.Gap)
			refs, logs, max := tx.Resolve(min, NewStore(), e.c.Cfg)
			if err := tr.Add(WriteFn(min, max, refs, logs)); err != nil {
				rec.err = err
				tr.Close()
				rec.tables = nil
				return
			}
			if len(refs)+len(logs) > 0 {
				rec.tables = append(rec.tables, model.Table{Min: min, Max: max, Refs: refs, Logs: NormLogs(logs, e.c.Cfg)})
				next = max + 1
			}
		}
		if rec.op.Kind == KAbandon {
			rec.tables = nil
			tr.Close()
			return
		}
		rec.err = tr.Commit()
		if rec.op.LateClose && rec.err == nil && len(rec.tables) > 0 {
			*pending = tr
			return
		}
		tr.Close()
	case KCompactAll:
		if st.String() == "[]" {
			return
		}
		rec.err = st.CompactAll(nil)
	case KExpire:
		if st.String() == "[]" {
			return
		}
		x := rec.op.Exp
		rec.err = st.CompactAll(&reftable.LogExpirationConfig{Time: x.Time, MaxUpdateIndex: x.Max, MinUpdateIndex: x.Min})
	case KAutoCompact:
		rec.err = st.AutoCompact()
	case KCompactRange:
		n := len(st.VerifTableNames())
		if n == 0 || !reftable.VerifExportAvailable {
			return
		}
		first, last := rec.op.A%n, rec.op.B%n
		if rec.op.A < 0 || rec.op.B < 0 {
			// negative: counted from the top of the stack (-1 = newest table)
			first, last = n+rec.op.A, n+rec.op.B
			if first < 0 {
				first = 0
			}
			if last < 0 {
				last = 0
			}
		}
		if first > last {
			first, last = last, first
		}
		_, rec.err = st.VerifCompactRange(first, last, nil)
	case KRead:
		// the read itself happens after every operation (see body)
	case KClose:
		st.Close()
		*stp = nil
	case KClean:
		rec.err = st.Clean()
	}
}

func shortStack() string {
	buf := make([]byte, 4096)
	n := runtime.Stack(buf, false)
	return string(buf[:n])
}

// ---------- schedules

type strategy interface {
	pick(e *engine, runnable []*verifvfs.Proc) *verifvfs.Proc
}

type uniformStrategy struct {
	picks []int
	i     int
}

func (s *uniformStrategy) pick(e *engine, r []*verifvfs.Proc) *verifvfs.Proc {
	if s.i < len(s.picks) {
		v := s.picks[s.i]
		s.i++
		return r[v%len(r)]
	}
	return r[0]
}

type pctStrategy struct {
	prio   []int // proc ids, highest priority first
	change map[int]bool
	step   int
}

func (s *pctStrategy) pick(e *engine, r []*verifvfs.Proc) *verifvfs.Proc {
	s.step++
	var best *verifvfs.Proc
	bestRank := 1 << 30
	for _, p := range r {
		rank := len(s.prio)
		for i, id := range s.prio {
			if id == p.ID {
				rank = i
			}
		}
		if rank < bestRank {
			best, bestRank = p, rank
		}
	}
	if s.change[s.step] {
		// demote the process that is about to run
		var np []int
		for _, id := range s.prio {
			if id != best.ID {
				np = append(np, id)
			}
		}
		s.prio = append(np, best.ID)
		return s.pick2(r)
	}
	return best
}

func (s *pctStrategy) pick2(r []*verifvfs.Proc) *verifvfs.Proc {
	var best *verifvfs.Proc
	bestRank := 1 << 30
	for _, p := range r {
		for i, id := range s.prio {
			if id == p.ID && i < bestRank {
				best, bestRank = p, i
			}
		}
	}
	if best == nil {
		return r[0]
	}
	return best
}

// windowedStrategy: order[0] runs until it has passed k[0] yields, then
// order[1] until k[1], ..., the last runs to completion; then the earlier
// ones finish in reverse order; remaining processes run one after another.
type windowedStrategy struct {
	order []int
	k     []int
	level int
	down  bool
}

func (s *windowedStrategy) pick(e *engine, r []*verifvfs.Proc) *verifvfs.Proc {
	find := func(id int) *verifvfs.Proc {
		for _, p := range r {
			if p.ID == id {
				return p
			}
		}
		return nil
	}
	for !s.down && s.level < len(s.order) {
		p := find(s.order[s.level])
		last := s.level == len(s.order)-1
		if p != nil && (last || s.level >= len(s.k) || p.Yields < s.k[s.level]) {
			return p
		}
		if last {
			s.down = true
			break
		}
		s.level++
	}
	s.down = true
	for i := len(s.order) - 1; i >= 0; i-- {
		if p := find(s.order[i]); p != nil {
			return p
		}
	}
	return r[0]
}

// segmentStrategy runs (process, n steps) segments in order - any number of
// context switches at chosen points - then lets the remaining processes
// finish one after another.
type segmentStrategy struct {
	segs [][2]int
	i    int
	used int
}

func (s *segmentStrategy) pick(e *engine, r []*verifvfs.Proc) *verifvfs.Proc {
	for s.i < len(s.segs) {
		seg := s.segs[s.i]
		if s.used < seg[1] {
			for _, p := range r {
				if p.ID == seg[0] {
					s.used++
					return p
				}
			}
		}
		s.i++
		s.used = 0
	}
	return r[0]
}

// opsStrategy schedules whole operations, with a few pre-emptions placed inside chosen
// operations: most defects need only one or two context switches at the right place, and
// aligning everything else to operation boundaries shrinks the space enormously.
type opsStrategy struct {
	segs    [][2]int
	pre     [][5]int
	i       int
	segBase int // operations the segment's process had completed when the segment started
	started bool
	preDone []bool
	inPre   int // index of the active pre-emption, -1 if none
	preBase int
}

func (e *engine) opsDone(p int) int {
	n := 0
	for _, o := range e.ops[p] {
		if o.ended {
			n++
		}
	}
	return n
}

func (s *opsStrategy) pick(e *engine, r []*verifvfs.Proc) *verifvfs.Proc {
	find := func(id int) *verifvfs.Proc {
		for _, p := range r {
			if p.ID == id {
				return p
			}
		}
		return nil
	}
	if s.preDone == nil {
		s.preDone = make([]bool, len(s.pre))
		s.inPre = -1
	}
	// an active pre-emption: the other process runs whole operations
	if s.inPre >= 0 {
		pr := s.pre[s.inPre]
		if q := find(pr[3]); q != nil && e.opsDone(pr[3]) < s.preBase+pr[4] {
			return q
		}
		s.inPre = -1
	}
	for s.i < len(s.segs) {
		seg := s.segs[s.i]
		p := find(seg[0])
		if p == nil || seg[0] >= len(e.ops) {
			s.i++
			s.started = false
			continue
		}
		if !s.started {
			s.segBase = e.opsDone(seg[0])
			s.started = true
		}
		if e.opsDone(seg[0]) >= s.segBase+seg[1] {
			s.i++
			s.started = false
			continue
		}
		// does a pre-emption apply right now?
		for j, pr := range s.pre {
			if s.preDone[j] || pr[0] != seg[0] || pr[3] == pr[0] || pr[3] >= len(e.ops) {
				continue
			}
			cur := e.cur[pr[0]]
			if cur != nil && cur.index == pr[1] && cur.fsSteps >= pr[2] {
				s.preDone[j] = true
				if q := find(pr[3]); q != nil {
					s.inPre = j
					s.preBase = e.opsDone(pr[3])
					return q
				}
			}
		}
		return p
	}
	return r[0]
}

func (e *engine) strategy() strategy {
	sp := e.c.Sched
	switch sp.Kind {
	case "ops":
		return &opsStrategy{segs: sp.OpSegs, pre: sp.Pre}
	case "segments":
		return &segmentStrategy{segs: sp.Segs}
	case "pct":
		ch := map[int]bool{}
		for _, c := range sp.Change {
			ch[c] = true
		}
		return &pctStrategy{prio: append([]int{}, sp.Prio...), change: ch}
	case "windowed":
		return &windowedStrategy{order: sp.Order, k: sp.K}
	}
	return &uniformStrategy{picks: sp.Picks}
}

// ---------- the run

// BuildInit creates the initial stack sequentially (no scheduler installed).
func BuildInit(dir string, c Case) error {
	cfg := c.Cfg.Config()
	st, err := reftable.NewStack(dir, cfg)
	if err != nil {
		return fmt.Errorf("init NewStack: %v", err)
	}
	defer st.Close()
	st.VerifSetAutoCompact(c.InitAuto)
	for i, op := range c.Init {
		if op.CompactAll {
			if st.String() != "[]" {
				if err := st.CompactAll(nil); err != nil {
					return fmt.Errorf("init step %d CompactAll: %v", i, err)
				}
			}
			continue
		}
		tx := *op.Tx
		err := st.Add(func(w *reftable.Writer) error {
			min := st.NextUpdateIndex() + uint64(tx.Gap)
			refs, logs, max := tx.Resolve(min, NewStore(), c.Cfg)
			return WriteFn(min, max, refs, logs)(w)
		})
		if err != nil {
			return fmt.Errorf("init step %d Add: %v", i, err)
		}
	}
	return nil
}

// Exec executes one case and evaluates the selected monitors.
func Exec(c Case, mon Monitors) (res *Result) {
	e := &engine{c: c, mon: mon, cfg: c.Cfg.Config(), tabCache: map[string]*model.Table{}, tabErr: map[string]string{},
		lockOwner: map[string]int{}, created: map[string]int{}, lastListRead: map[int][]string{}}
	res = &e.res
	e.dir = ScratchDir()
	defer os.RemoveAll(e.dir)
	verifvfs.UseVirtualClock()
	verifvfs.Install(nil)
	reftable.VerifReseed(1)
	if err := BuildInit(e.dir, c); err != nil {
		e.fail(Failf("init", "could not build the initial stack sequentially: %v", err))
		return
	}
	names := ReadList(e.dir)
	if err := e.checkList(names, "initial stack"); err != nil {
		e.fail(err)
		return
	}
	v0, err := e.viewOf(names)
	if err != nil {
		e.fail(Failf("init", "initial stack unreadable: %v", err))
		return
	}
	e.versions = []version{{names: names, view: v0, step: -1, proc: -1}}
	res.InitialView = v0
	e.everCommitted = len(names) > 0 || fileExists(filepath.Join(e.dir, "tables.list"))

	e.sched = verifvfs.NewSched()
	e.sched.YieldOnWrite = c.YieldOnWrite
	n := len(c.Progs)
	e.ops = make([][]*opRecord, n)
	e.cur = make([]*opRecord, n)
	e.lastSeen = make([]int, n)
	for p := range c.Progs {
		for i, op := range c.Progs[p].Ops {
			e.ops[p] = append(e.ops[p], &opRecord{proc: p, index: i, op: op})
		}
		e.procs = append(e.procs, e.sched.Spawn(e.body(p)))
	}
	verifvfs.Install(e.sched)
	defer func() {
		e.sched.KillAll()
		verifvfs.Install(nil)
		for _, h := range e.handles {
			h.VerifCloseReadersOnly()
		}
		res.Trace = e.sched.Trace
		for _, p := range e.procs {
			res.YieldsPerProc = append(res.YieldsPerProc, p.Yields)
		}
	}()

	crashAt := map[int]int{}
	for _, cr := range c.Crashes {
		if cr.Proc < n {
			crashAt[cr.Proc] = cr.At
		}
	}
	strat := e.strategy()
	for steps := 0; ; steps++ {
		if steps > 20000 {
			e.fail(Failf("engine/too-many-steps", "more than 20000 filesystem steps: a process does not terminate\n%s", e.tail(20)))
			return
		}
		var runnable []*verifvfs.Proc
		for _, p := range e.procs {
			if !p.Done() {
				runnable = append(runnable, p)
			}
		}
		if len(runnable) == 0 {
			break
		}
		p := strat.pick(e, runnable)
		// p is blocked in front of filesystem call number Yields-1 (0-based)
		at, hasCrash := crashAt[p.ID]
		kill := hasCrash && p.Pending() != nil && !p.Pending().Mark && p.Yields-1 == at
		e.sched.Step(p, kill)
		if kill {
			res.Killed++
			if res.ViewAtKill == nil {
				res.ViewAtKill = e.versions[len(e.versions)-1].view
			}
			// was it killed between a table rename and the end of its operation?
			if op := e.cur[p.ID]; op != nil {
				for _, ev := range e.sched.Trace[maxInt(0, len(e.sched.Trace)-40):] {
					if ev.Proc == p.ID && ev.Op == "rename" && ev.OK {
						res.CrashAfterRename = true
					}
				}
			}
			e.cur[p.ID] = nil
		}
		if p.Panic != nil && p.Done() {
			e.fail(annotate(Failf("panic/process", "process %d panicked: %v\n%s", p.ID, p.Panic, p.Stack), e.tail(12)))
		}
		for e.traceDone < len(e.sched.Trace) {
			ev := e.sched.Trace[e.traceDone]
			e.traceDone++
			e.onEvent(ev)
			if e.res.Violation != nil {
				return
			}
		}
		res.Steps++
		if mon.M5 && mon.Probe > 0 {
			e.stepsSinceProbe++
			if e.stepsSinceProbe >= mon.Probe {
				e.stepsSinceProbe = 0
				if err := e.probe(fmt.Sprintf("after step %d", res.Steps)); err != nil {
					e.fail(err)
					return
				}
			}
		}
		if e.res.Violation != nil {
			return
		}
	}
	verifvfs.Install(nil)
	res.Versions = len(e.versions)
	res.FinalView = e.versions[len(e.versions)-1].view

	// ---- global checks at quiescence
	if mon.M5 || mon.M4 {
		if err := e.probe("at the end"); err != nil {
			e.fail(err)
			return
		}
	}
	if mon.M4 {
		st, err := reftable.NewStack(e.dir, e.cfg)
		if err != nil {
			e.fail(annotate(Failf("C04/final-open", "fresh NewStack at the end: %v", err), e.tail(12)))
			return
		}
		err = CompareView("C04/final", "fresh handle at the end vs. the last committed version decoded from disk", st, e.versions[len(e.versions)-1].view)
		st.Close()
		if err != nil {
			e.fail(err)
			return
		}
	}
	if mon.M16 && res.Killed == 0 {
		if err := e.checkQuiescent(); err != nil {
			e.fail(annotate(err, e.tail(16)))
			return
		}
	}
	return
}

func maxInt(a, b int) int {
	if a > b {
		return a
	}
	return b
}

func fileExists(p string) bool {
	_, err := os.Lstat(p)
	return err == nil
}

// probe: a pass-through NewStack on the frozen directory must succeed.
func (e *engine) probe(when string) error {
	verifvfs.Install(nil)
	defer verifvfs.Install(e.sched)
	st, err := reftable.NewStack(e.dir, e.cfg)
	if err != nil {
		return annotate(Failf("C05/open-fails", "%s: opening the directory fails: %v (list %v, dir %v)", when, err, ReadList(e.dir), ListDir(e.dir)), e.tail(14))
	}
	defer closeReaders(st)
	if _, _, err := ViewOf(st); err != nil {
		return annotate(Failf("C05/read-fails", "%s: reading a freshly opened stack fails: %v", when, err), e.tail(14))
	}
	return nil
}

// closeReaders releases a probe handle without its garbage collection
// (Stack.Close may unlink files; a probe must not change the directory).
func closeReaders(st *reftable.Stack) {
	st.VerifCloseReadersOnly()
}

// checkQuiescent is the global part of M16.
func (e *engine) checkQuiescent() error {
	names := ReadList(e.dir)
	want := map[string]bool{}
	for _, n := range names {
		want[n] = true
	}
	var extra []string
	have := map[string]bool{}
	for _, f := range ListDir(e.dir) {
		have[f] = true
		if f == "tables.list" {
			continue
		}
		if !want[f] {
			extra = append(extra, f)
		}
	}
	// "exactly tables.list and the tables it names": the other direction
	for _, n := range names {
		if !have[n] {
			return Failf("C16/listed-table-removed", "all handles are idle, none crashed, but table %s named by tables.list is not in the directory (dir %v)", n, ListDir(e.dir))
		}
	}
	sort.Strings(extra)
	if len(extra) > 0 {
		return Failf("C16/residue-at-quiescence", "all handles are idle, none crashed, but the directory holds %v besides tables.list and its %d tables (dir %v)", extra, len(names), ListDir(e.dir))
	}
	return nil
}
