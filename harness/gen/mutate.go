package gen

import (
	"encoding/binary"
	"hash/crc32"

	"pgregory.net/rapid"
)

// Mut is one edit of a valid table.
type Mut struct {
	Kind int    `json:"kind"` // 0 bit flip, 1 byte set, 2 truncate, 3 structural target set, 4 splice from the second table, 5 insert bytes, 6 u24/u64 field overwrite at a structural target
	Pos  int    `json:"pos"`  // interpreted modulo the relevant length
	Val  uint64 `json:"val"`
	Len  int    `json:"len,omitempty"`
}

var hostileBytes = []byte{0, 1, 0x7f, 0x80, 0xff, 'r', 'g', 'i', 'o', 0x10, 0xfe}
var hostileWords = []uint64{0, 1, 2, 0x7f, 0x80, 0xff, 0x100, 0xffff, 0x10000, 0xffffff, 0x7fffffff, 0xffffffff, 1 << 40, 1<<63 - 1, 1 << 63, ^uint64(0)}

func DrawMuts(t *rapid.T, max int) []Mut {
	n := rapid.IntRange(1, max).Draw(t, "nmut")
	var out []Mut
	for i := 0; i < n; i++ {
		m := Mut{Kind: rapid.SampledFrom([]int{0, 0, 1, 1, 2, 3, 3, 3, 3, 4, 5, 6, 6, 6, 7, 7, 7, 8, 8, 8}).Draw(t, "mkind"), Pos: rapid.IntRange(0, 1<<20).Draw(t, "mpos")}
		switch m.Kind {
		case 0:
			m.Val = uint64(rapid.IntRange(0, 7).Draw(t, "bit"))
		case 1, 3:
			if rapid.Bool().Draw(t, "hostile") {
				m.Val = uint64(rapid.SampledFrom(hostileBytes).Draw(t, "hb"))
			} else {
				m.Val = uint64(rapid.Byte().Draw(t, "b"))
			}
		case 7, 8:
			m.Val = uint64(rapid.IntRange(0, 1<<16).Draw(t, "redirTarget"))
		case 4, 5:
			m.Len = rapid.IntRange(1, 64).Draw(t, "mlen")
			m.Val = uint64(rapid.IntRange(0, 1<<20).Draw(t, "msrc"))
		case 6:
			if rapid.Bool().Draw(t, "hostileW") {
				m.Val = rapid.SampledFrom(hostileWords).Draw(t, "hw")
			} else {
				m.Val = rapid.Uint64().Draw(t, "w")
			}
			m.Len = rapid.SampledFrom([]int{1, 2, 3, 8}).Draw(t, "flen")
		}
		out = append(out, m)
	}
	return out
}

// Redirect is a structure-aware edit: the position varint of an index entry or of an
// object record is overwritten with the offset of another (or the same) block, keeping its
// encoded length, so that everything else in the file stays decodable.
type Redirect struct {
	PosOff, PosLen int
	Targets        []uint64 // block offsets that can be written with PosLen bytes
	Extra          []int    // further varint fields near this one (counts, key lengths)
}

func putVarint(v uint64) []byte {
	var dest [10]byte
	i := 9
	dest[i] = byte(v & 0x7f)
	i--
	for {
		v >>= 7
		if v == 0 {
			break
		}
		v--
		dest[i] = 0x80 | byte(v&0x7f)
		i--
	}
	return dest[i+1:]
}

// Apply performs the edits on a copy of data. targets are offsets of
// structurally interesting bytes (block headers, lengths, restart tables,
// footer fields) in the unmutated file; other is a second valid table.
var hostileVarints = [][]byte{
	{0xff, 0xff, 0xff, 0xff, 0x7f},
	{0xff, 0xff, 0xff, 0xff, 0xff, 0xff, 0xff, 0xff, 0xff, 0x7f},
	{0xff, 0xff, 0x7f},
	{0x80, 0x80, 0x80, 0x80, 0x00},
	{0xff, 0xff, 0xff, 0xff, 0xff, 0xff, 0xff, 0xff, 0xff, 0xff, 0xff, 0xff},
	{0x8f, 0xff, 0xff, 0x7f},
}

func Apply(data []byte, other []byte, targets []int, muts []Mut, fixCRC bool, hdr int, redirects ...Redirect) []byte {
	d := append([]byte{}, data...)
	// fields parsed as varints: redirect positions (index/object entries) and the marked extra targets
	var varintTargets []int
	for _, r := range redirects {
		varintTargets = append(varintTargets, r.PosOff)
		varintTargets = append(varintTargets, r.Extra...)
	}
	for _, m := range muts {
		if len(d) == 0 {
			break
		}
		switch m.Kind {
		case 8:
			// a hostile varint (huge value, or over-long encoding) written over a field that is parsed as a varint
			if len(varintTargets) > 0 {
				p := varintTargets[m.Pos%len(varintTargets)]
				enc := hostileVarints[int(m.Val%uint64(len(hostileVarints)))]
				for i := 0; i < len(enc) && p+i < len(d); i++ {
					d[p+i] = enc[i]
				}
			}
		case 7:
			if len(redirects) > 0 {
				r := redirects[m.Pos%len(redirects)]
				if len(r.Targets) > 0 && r.PosOff+r.PosLen <= len(d) {
					enc := putVarint(r.Targets[int(m.Val%uint64(len(r.Targets)))])
					if len(enc) == r.PosLen {
						copy(d[r.PosOff:], enc)
					}
				}
			}
		case 0:
			d[m.Pos%len(d)] ^= 1 << (m.Val & 7)
		case 1:
			d[m.Pos%len(d)] = byte(m.Val)
		case 2:
			d = d[:m.Pos%(len(d)+1)]
		case 3:
			if len(targets) > 0 {
				if p := targets[m.Pos%len(targets)]; p < len(d) {
					d[p] = byte(m.Val)
				}
			}
		case 4:
			if len(other) > 0 {
				src := int(m.Val) % len(other)
				n := m.Len
				if src+n > len(other) {
					n = len(other) - src
				}
				dst := m.Pos % len(d)
				copy(d[dst:], other[src:src+n])
			}
		case 5:
			p := m.Pos % (len(d) + 1)
			ins := make([]byte, m.Len)
			for i := range ins {
				ins[i] = byte(m.Val >> (8 * uint(i%8)))
			}
			d = append(d[:p:p], append(ins, d[p:]...)...)
		case 6:
			if len(targets) > 0 {
				p := targets[m.Pos%len(targets)]
				for i := 0; i < m.Len && p+i < len(d); i++ {
					d[p+i] = byte(m.Val >> (8 * uint(m.Len-1-i)))
				}
			}
		}
	}
	ftr := 68
	if hdr == 28 {
		ftr = 72
	}
	if fixCRC && len(d) >= hdr+ftr {
		f := d[len(d)-ftr:]
		copy(f, d[:hdr])
		binary.BigEndian.PutUint32(f[ftr-4:], crc32.ChecksumIEEE(f[:ftr-4]))
	}
	return d
}
