package gen

import (
	"strings"

	"pgregory.net/rapid"
	. "verifharness/evid"
)

var pieces = []string{"a", "b", "c", "ab", "a/b", "/", "refs/", "heads/", "tags/", "x", "y", "z", "0", "1", "9",
	"\x01", "\xff", "~", "-", ".", "HEAD", "main", "\x7f", "\x80", " ",
	// multi-byte UTF-8 sequences that differ only in a continuation byte
	"caf\xc3\xa9", "caf\xc3\xaa", "\xe6\x97\xa5", "\xe6\x97\xa6", "\xf0\x9f\x98\x80", "\xf0\x9f\x98\x81"}

var blockSizes = []uint32{0, 64, 64, 72, 80, 96, 100, 128, 128, 137, 160, 200, 256, 256, 300, 512, 1024, 4096, 65536}

var varintEdges = []uint64{127, 128, 129, 16511, 16512, 16513, 2113663, 2113664, 2113665, 1<<32 - 1, 1 << 32, 1<<56 + 5, 1<<63 - 1, 1 << 63}

func varintLen(v uint64) int {
	n := 1
	for v >>= 7; v != 0; v >>= 7 {
		v--
		n++
	}
	return n
}

// DrawCfg draws a write configuration.
func DrawCfg(t *rapid.T) Cfg {
	c := Cfg{}
	switch rapid.IntRange(0, 9).Draw(t, "bsKind") {
	case 0:
		c.BlockSize = uint32(rapid.IntRange(64, 700).Draw(t, "bs"))
	case 1:
		if rapid.IntRange(0, 7).Draw(t, "bsHuge") == 0 {
			c.BlockSize = 1 << 20
		} else {
			c.BlockSize = uint32(rapid.IntRange(700, 70000).Draw(t, "bs"))
		}
	default:
		c.BlockSize = rapid.SampledFrom(blockSizes).Draw(t, "bs")
	}
	c.RestartInterval = rapid.SampledFrom([]int{0, 0, 1, 2, 3, 4, 16, 64, 1000}).Draw(t, "ri")
	c.Unaligned = rapid.IntRange(0, 2).Draw(t, "unaligned") == 0
	c.SkipIndexObjects = rapid.IntRange(0, 3).Draw(t, "skipobj") == 0
	c.Hash = rapid.IntRange(0, 2).Draw(t, "hash")
	c.Exact = rapid.Bool().Draw(t, "exact")
	return c
}

// DrawLimits draws (min,max) update-index limits.
func DrawLimits(t *rapid.T) (uint64, uint64) {
	var min uint64
	switch rapid.IntRange(0, 5).Draw(t, "minKind") {
	case 0:
		min = 0
	case 1:
		min = 1
	case 2:
		min = uint64(rapid.IntRange(2, 300).Draw(t, "min"))
	case 3:
		min = 1 << 32
	case 4:
		min = 1<<63 + uint64(rapid.IntRange(0, 5).Draw(t, "min"))
	case 5:
		min = rapid.Uint64Range(0, 1<<62).Draw(t, "min")
	}
	var span uint64
	switch rapid.IntRange(0, 4).Draw(t, "spanKind") {
	case 0:
		span = 0
	case 1:
		span = 1
	case 2:
		span = uint64(rapid.IntRange(2, 20).Draw(t, "span"))
	case 3:
		span = uint64(rapid.IntRange(100, 100000).Draw(t, "span"))
	case 4:
		span = 1 << 62
	}
	return min, min + span
}

// NameGen draws names that share stems, so that prefix compression,
// directory structure and near-miss keys are common.
type NameGen struct {
	stems []string
}

func NewNameGen(t *rapid.T) *NameGen {
	g := &NameGen{}
	k := rapid.IntRange(1, 4).Draw(t, "nstems")
	for i := 0; i < k; i++ {
		n := rapid.IntRange(0, 3).Draw(t, "stemPieces")
		s := ""
		for j := 0; j < n; j++ {
			s += rapid.SampledFrom(pieces).Draw(t, "piece")
		}
		if rapid.IntRange(0, 5).Draw(t, "stemLong") == 0 {
			s += strings.Repeat(rapid.SampledFrom([]string{"q", "/w", "\xfe"}).Draw(t, "run"), rapid.IntRange(1, 120).Draw(t, "runLen"))
		}
		g.stems = append(g.stems, s)
	}
	return g
}

// Draw returns a non-empty NUL-free name of at most maxLen bytes (maxLen >= 1).
func (g *NameGen) Draw(t *rapid.T, maxLen int) string {
	s := g.stems[rapid.IntRange(0, len(g.stems)-1).Draw(t, "stem")]
	switch rapid.IntRange(0, 3).Draw(t, "sufKind") {
	case 0:
		n := rapid.IntRange(0, 3).Draw(t, "np")
		for j := 0; j < n; j++ {
			s += rapid.SampledFrom(pieces).Draw(t, "piece")
		}
	case 1, 2:
		v := rapid.IntRange(0, 999).Draw(t, "num")
		s += string([]byte{'0' + byte(v/100), '0' + byte(v/10%10), '0' + byte(v%10)})
	case 3:
		s += rapid.SampledFrom(pieces).Draw(t, "piece")
		v := rapid.IntRange(0, 99).Draw(t, "num")
		s += string([]byte{'0' + byte(v/10), '0' + byte(v%10)})
	}
	if s == "" {
		s = "r"
	}
	if len(s) > maxLen {
		// keep the tail: it carries the distinguishing suffix
		s = s[len(s)-maxLen:]
	}
	return s
}

// HashPool draws object ids of one size; small pools make ids repeat.
type HashPool struct {
	size int
	pool [][]byte
}

func NewHashPool(t *rapid.T, size int, maxPool int) *HashPool {
	p := &HashPool{size: size}
	n := rapid.IntRange(1, maxPool).Draw(t, "poolSize")
	sharedPrefix := rapid.IntRange(0, size-1).Draw(t, "sharedPrefix")
	if rapid.Bool().Draw(t, "noShared") {
		sharedPrefix = 0
	}
	base := rapid.SliceOfN(rapid.Byte(), size, size).Draw(t, "base")
	for i := 0; i < n; i++ {
		h := rapid.SliceOfN(rapid.Byte(), size, size).Draw(t, "hash")
		copy(h, base[:sharedPrefix])
		p.pool = append(p.pool, h)
	}
	return p
}

func (p *HashPool) All() [][]byte { return p.pool }

func (p *HashPool) Draw(t *rapid.T) []byte {
	if rapid.IntRange(0, 9).Draw(t, "fresh") == 0 {
		switch rapid.IntRange(0, 2).Draw(t, "freshKind") {
		case 0:
			return make([]byte, p.size) // all zero
		case 1:
			h := make([]byte, p.size)
			for i := range h {
				h[i] = 0xff
			}
			return h
		}
		return rapid.SliceOfN(rapid.Byte(), p.size, p.size).Draw(t, "hash")
	}
	// first element is "hot"
	i := rapid.IntRange(0, 2*len(p.pool)-1).Draw(t, "poolIdx")
	if i >= len(p.pool) {
		i = 0
	}
	return p.pool[i]
}

// drawRef draws one ref record that fits in maxRec bytes.
func drawRef(t *rapid.T, ng *NameGen, hp *HashPool, min, max uint64, maxRec int, kinds []int, pad int) (Ref, bool) {
	r := Ref{}
	if max-min < 64 {
		r.Idx = min + uint64(rapid.IntRange(0, int(max-min)).Draw(t, "idx"))
	} else {
		switch rapid.IntRange(0, 4).Draw(t, "idxKind") {
		case 0:
			r.Idx = min
		case 1:
			r.Idx = max
		case 2:
			r.Idx = min + uint64(rapid.IntRange(0, 64).Draw(t, "idx"))
		case 3:
			r.Idx = rapid.Uint64Range(min, max).Draw(t, "idx")
		case 4:
			// deltas around the boundaries of the offset varint (1/2/3/4 bytes ... 10 bytes)
			d := rapid.SampledFrom(varintEdges).Draw(t, "idxEdge")
			if d > max-min {
				d = max - min
			}
			r.Idx = min + d
		}
	}
	r.Kind = rapid.SampledFrom(kinds).Draw(t, "kind")
	fixed := 1 + 3 + varintLen(r.Idx-min)
	hs := hp.size
	avail := maxRec - fixed
	if r.Kind == KPeeled && avail-2*hs < 1 {
		r.Kind = KVal
	}
	if r.Kind == KVal && avail-hs < 1 {
		r.Kind = KSym
	}
	if r.Kind == KSym && avail-2 < 2 {
		r.Kind = KDel
	}
	nameMax := 0
	switch r.Kind {
	case KDel:
		nameMax = avail
	case KVal:
		r.Val = hp.Draw(t)
		nameMax = avail - hs
	case KPeeled:
		r.Val = hp.Draw(t)
		r.Peeled = hp.Draw(t)
		nameMax = avail - 2*hs
	case KSym:
		room := avail - 2 // target length varint (<=2 for what we draw)
		tl := rapid.IntRange(1, minInt(room-1, 60)).Draw(t, "targetLen")
		tgt := ng.Draw(t, tl)
		if room-1 > 140 && rapid.IntRange(0, 9).Draw(t, "longTarget") == 0 {
			// targets around the 127/128 length-varint boundary and beyond
			want := rapid.SampledFrom([]int{126, 127, 128, 129, 200, 300}).Draw(t, "targetLong")
			if want > room-20 {
				want = room - 20
			}
			for len(tgt) < want {
				tgt += "t"
			}
		}
		r.Target = Str(tgt)
		nameMax = room - len(tgt)
	}
	if nameMax < 1 {
		return r, false
	}
	if nameMax > 250 {
		if rapid.IntRange(0, 19).Draw(t, "longName") == 0 {
			// rare: names around the 2-byte/3-byte boundary of the key-length varint (suffix length << 3)
			want := rapid.SampledFrom([]int{255, 256, 1000, 2047, 2048, 2049, 2063, 2064, 3000}).Draw(t, "nameLong")
			if want < nameMax {
				pad = want
			}
			if nameMax > 3100 {
				nameMax = 3100
			}
		} else {
			nameMax = 250
		}
	}
	name := ng.Draw(t, nameMax)
	if pad > nameMax {
		pad = nameMax
	}
	if len(name) < pad {
		name += strings.Repeat("_", pad-len(name))
	}
	r.Name = Str(name)
	return r, true
}

func minInt(a, b int) int {
	if a < b {
		return a
	}
	return b
}

var words = []string{"commit", "merge", "rebase", ":", " ", "update by push", "x", "fast-forward", "\t", "é", "\x00", "\xff"}

func drawText(t *rapid.T, maxLen int, allowNL bool) string {
	if maxLen <= 0 {
		return ""
	}
	n := rapid.IntRange(0, 4).Draw(t, "nwords")
	s := ""
	for i := 0; i < n; i++ {
		if allowNL && rapid.IntRange(0, 4).Draw(t, "nl") == 0 {
			s += "\n"
		}
		s += rapid.SampledFrom(words).Draw(t, "word")
	}
	if len(s) > maxLen {
		s = s[:maxLen]
	}
	return s
}

// drawLog draws a log record for name/idx that fits in maxRec bytes (uncompressed).
func drawLog(t *rapid.T, name string, idx uint64, hp *HashPool, maxRec int, exact bool, incompressible bool) (Log, bool) {
	l := Log{Name: Str(name), Idx: idx}
	keyCost := 1 + 3 + len(name) + 9
	if keyCost > maxRec {
		return l, false
	}
	hs := hp.size
	// fixed part of an update: two hashes, two length bytes (who/email up to 127),
	// time varint (<= 10), tz (2), message length (<= 3)
	fixed := 2*hs + 2 + 10 + 2 + 3
	avail := maxRec - keyCost - fixed
	if avail < 0 || rapid.IntRange(0, 7).Draw(t, "logDel") == 0 {
		l.Del = true
		return l, true
	}
	if rapid.IntRange(0, 5).Draw(t, "oldNil") != 0 {
		l.Old = hp.Draw(t)
	}
	if rapid.IntRange(0, 5).Draw(t, "newNil") != 0 {
		l.New = hp.Draw(t)
	}
	who := drawText(t, minInt(avail, 40), true)
	avail -= len(who)
	email := drawText(t, minInt(avail, 40), true)
	avail -= len(email)
	l.Who, l.Email = Str(who), Str(email)
	switch rapid.IntRange(0, 3).Draw(t, "timeKind") {
	case 0:
		l.Time = 0
	case 1:
		l.Time = uint64(rapid.IntRange(1, 2000000000).Draw(t, "time"))
	case 2:
		l.Time = rapid.Uint64().Draw(t, "time")
	case 3:
		l.Time = ^uint64(0)
	}
	l.TZ = int16(rapid.IntRange(-32768, 32767).Draw(t, "tz"))
	if rapid.IntRange(0, 3).Draw(t, "tzSmall") != 0 {
		l.TZ = int16(rapid.SampledFrom([]int{0, 60, -60, 330, -720, 1, -1}).Draw(t, "tz"))
	}
	var msg string
	if incompressible && avail > 0 {
		n := avail
		if n > 400 {
			n = 400
		}
		b := rapid.SliceOfN(rapid.Byte(), n, n).Draw(t, "noise")
		if !exact {
			for i := range b {
				if b[i] == '\n' || b[i] == ' ' || b[i] == '\t' || b[i] == '\r' || b[i] == '\v' || b[i] == '\f' || b[i] == 0x85 || b[i] == 0xa0 {
					b[i] = 'n'
				}
			}
		}
		msg = string(b)
	} else if exact {
		msg = drawText(t, avail, true)
		if rapid.IntRange(0, 3).Draw(t, "msgNL") == 0 && len(msg) < avail {
			msg += "\n"
		}
	} else {
		msg = drawText(t, avail-1, false)
		if rapid.IntRange(0, 5).Draw(t, "blank") != 0 {
			// main class: no blanks at either end (kept separate so that the
			// distribution can be measured)
			msg = strings.Trim(msg, " \t")
		}
		if rapid.Bool().Draw(t, "msgNL") {
			msg += "\n"
		}
	}
	l.Msg = Str(msg)
	if l.Old == nil && l.New == nil && who == "" && email == "" && l.Time == 0 && l.TZ == 0 && msg == "" {
		// indistinguishable from a deletion in the Go API
		l.Del = true
	}
	return l, true
}

// DrawFillingLog draws an update entry of random bytes (fresh hashes, noise message) whose
// encoded size fills a block of blockSize bytes up to slack bytes, when it is the only
// record of that block: the zlib stream of such a block is longer than the block, which
// sends the reader into its read-more path. blockSize counts what the record may use
// together with the 4-byte block header and its 5-byte restart table.
func DrawFillingLog(t *rapid.T, name string, idx uint64, hs int, blockSize int, exact bool, slack int) (Log, bool) {
	return drawFillingLog(t, name, idx, hs, blockSize, exact, slack, false)
}

// DrawBigFillingLog is DrawFillingLog for blocks of tens or hundreds of kilobytes: the noise is
// expanded from one drawn 64-bit value (xorshift) instead of being drawn byte by byte; the
// case still carries the full message, so it replays exactly.
func DrawBigFillingLog(t *rapid.T, name string, idx uint64, hs int, blockSize int, exact bool, slack int) (Log, bool) {
	return drawFillingLog(t, name, idx, hs, blockSize, exact, slack, true)
}

func drawFillingLog(t *rapid.T, name string, idx uint64, hs int, blockSize int, exact bool, slack int, expand bool) (Log, bool) {
	l := Log{Name: Str(name), Idx: idx}
	l.Old = rapid.SliceOfN(rapid.Byte(), hs, hs).Draw(t, "fold")
	l.New = rapid.SliceOfN(rapid.Byte(), hs, hs).Draw(t, "fnew")
	l.Who = Str(rapid.SampledFrom([]string{"", "A U Thor", "c"}).Draw(t, "fwho"))
	l.Email = Str(rapid.SampledFrom([]string{"", "a@example.com"}).Draw(t, "femail"))
	l.Time = rapid.Uint64().Draw(t, "ftime")
	l.TZ = int16(rapid.IntRange(-32768, 32767).Draw(t, "ftz"))
	vl := func(v uint64) int { return len(putVarint(v)) }
	fixed := 1 + vl(uint64(len(name)+9)<<3|1) + len(name) + 9 + 2*hs + vl(uint64(len(l.Who))) + len(l.Who) +
		vl(uint64(len(l.Email))) + len(l.Email) + vl(l.Time) + 2
	target := blockSize - 9 - slack
	m := -1
	for cand := target - fixed - 1; cand >= target-fixed-4 && cand >= 2; cand-- {
		if fixed+vl(uint64(cand))+cand == target {
			m = cand
			break
		}
	}
	if m < 2 {
		return l, false
	}
	var b []byte
	if expand {
		x := rapid.Uint64().Draw(t, "fnoiseSeed") | 1
		b = make([]byte, m)
		for i := range b {
			x ^= x << 13
			x ^= x >> 7
			x ^= x << 17
			b[i] = byte(x >> 32)
		}
	} else {
		b = rapid.SliceOfN(rapid.Byte(), m, m).Draw(t, "fnoise")
	}
	if !exact {
		// the writer would normalise the message: keep it in normal form (one final newline)
		for i := range b {
			if b[i] == '\n' {
				b[i] = 'n'
			}
		}
		b[m-1] = '\n'
	}
	l.Msg = Str(b)
	return l, true
}

// TableOpts steers the table generator.
type TableOpts struct {
	MaxRefs, MaxLogs int
	SmallBlocks      bool // bias towards many blocks
	Kinds            []int
	HashPoolMax      int
	NoLogs           bool
	Hot              bool // one or two ids in very many small ref blocks (truncated object-index position lists)
}

var allKinds = []int{KDel, KVal, KVal, KVal, KPeeled, KPeeled, KSym}

// DrawTable draws a full table description.
func DrawTable(t *rapid.T, o TableOpts) TableSpec {
	cfg := DrawCfg(t)
	if o.SmallBlocks && rapid.IntRange(0, 3).Draw(t, "forceSmall") != 0 {
		cfg.BlockSize = rapid.SampledFrom([]uint32{64, 72, 80, 96, 128, 160, 200, 256}).Draw(t, "bsSmall")
	}
	if o.Hot {
		cfg.BlockSize = rapid.SampledFrom([]uint32{96, 112, 128, 160}).Draw(t, "bsHot")
		cfg.SkipIndexObjects = false
	}
	min, max := DrawLimits(t)
	return DrawTableWith(t, cfg, min, max, o)
}

func DrawTableWith(t *rapid.T, cfg Cfg, min, max uint64, o TableOpts) TableSpec {
	if o.Kinds == nil {
		o.Kinds = allKinds
	}
	if o.HashPoolMax == 0 {
		o.HashPoolMax = 8
	}
	spec := TableSpec{Cfg: cfg, Min: min, Max: max}
	ng := NewNameGen(t)
	hp := NewHashPool(t, cfg.HashSize(), o.HashPoolMax)
	maxRec := cfg.EffBlockSize() - 28 - 4 - 5 - 8

	nrefs := 0
	switch rapid.IntRange(0, 5).Draw(t, "refShape") {
	case 0:
		nrefs = 0
	case 1, 2:
		nrefs = rapid.IntRange(1, minInt(8, o.MaxRefs)).Draw(t, "nrefs")
	case 3, 4:
		nrefs = rapid.IntRange(1, minInt(40, o.MaxRefs)).Draw(t, "nrefs")
	case 5:
		nrefs = rapid.IntRange(1, o.MaxRefs).Draw(t, "nrefs")
	}
	if o.MaxRefs == 0 {
		nrefs = 0
	}
	if o.Hot {
		nrefs = rapid.IntRange(minInt(90, o.MaxRefs), o.MaxRefs).Draw(t, "nrefsHot")
	}
	for i := 0; i < nrefs; i++ {
		pad := 0
		if o.Hot {
			pad = 48 // about one ref per block
		}
		if r, ok := drawRef(t, ng, hp, min, max, maxRec, o.Kinds, pad); ok {
			spec.Refs = append(spec.Refs, r)
		}
	}
	spec.Refs = SortRefs(spec.Refs)

	nlogNames := 0
	if !o.NoLogs && o.MaxLogs > 0 {
		switch rapid.IntRange(0, 4).Draw(t, "logShape") {
		case 0:
			nlogNames = 0
		case 1, 2:
			nlogNames = rapid.IntRange(1, minInt(4, o.MaxLogs)).Draw(t, "nlogs")
		case 3:
			nlogNames = rapid.IntRange(1, minInt(15, o.MaxLogs)).Draw(t, "nlogs")
		case 4:
			nlogNames = rapid.IntRange(1, o.MaxLogs).Draw(t, "nlogs")
		}
	}
	incompressible := nlogNames > 0 && rapid.IntRange(0, 3).Draw(t, "incompressible") == 0
	for i := 0; i < nlogNames; i++ {
		var name string
		if len(spec.Refs) > 0 && rapid.Bool().Draw(t, "logForRef") {
			name = string(spec.Refs[rapid.IntRange(0, len(spec.Refs)-1).Draw(t, "refIdx")].Name)
		} else {
			name = ng.Draw(t, minInt(maxRec-14, 250))
		}
		k := rapid.IntRange(1, 4).Draw(t, "entries")
		for j := 0; j < k; j++ {
			var idx uint64
			if max-min < 16 {
				idx = min + uint64(rapid.IntRange(0, int(max-min)).Draw(t, "lidx"))
			} else if rapid.Bool().Draw(t, "lidxNear") {
				idx = min + uint64(rapid.IntRange(0, 16).Draw(t, "lidx"))
			} else {
				idx = rapid.Uint64Range(min, max).Draw(t, "lidx")
			}
			if l, ok := drawLog(t, name, idx, hp, maxRec, cfg.Exact, incompressible); ok {
				spec.Logs = append(spec.Logs, l)
			}
		}
	}
	spec.Logs = SortLogs(spec.Logs)
	return spec
}
