// Package gen holds the case types (plain serialisable values) and their
// rapid generators.
package gen

import (
	"bytes"
	"encoding/binary"
	"fmt"
	"sort"
	"strings"

	"github.com/google/reftable"
	. "verifharness/evid"
)

// Cfg mirrors reftable.Config as a serialisable value.
type Cfg struct {
	BlockSize        uint32 `json:"bs"`
	RestartInterval  int    `json:"ri"`
	Unaligned        bool   `json:"unaligned,omitempty"`
	SkipIndexObjects bool   `json:"skipobj,omitempty"`
	Hash             int    `json:"hash"` // 0 unset (=sha1), 1 sha1, 2 sha256
	Exact            bool   `json:"exact,omitempty"`
	SkipNameCheck    bool   `json:"skipname,omitempty"`
}

func (c Cfg) HashID() reftable.HashID {
	switch c.Hash {
	case 1:
		return reftable.SHA1ID
	case 2:
		return reftable.SHA256ID
	}
	return reftable.NullHashID
}

func (c Cfg) HashSize() int {
	if c.Hash == 2 {
		return 32
	}
	return 20
}

func (c Cfg) HeaderSize() int {
	if c.Hash == 2 {
		return 28
	}
	return 24
}

func (c Cfg) EffBlockSize() int {
	if c.BlockSize == 0 {
		return 4096
	}
	return int(c.BlockSize)
}

func (c Cfg) Config() reftable.Config {
	return reftable.Config{
		Unaligned:        c.Unaligned,
		BlockSize:        c.BlockSize,
		SkipIndexObjects: c.SkipIndexObjects,
		RestartInterval:  c.RestartInterval,
		HashID:           c.HashID(),
		SkipNameCheck:    c.SkipNameCheck,
		ExactLogMessage:  c.Exact,
	}
}

// Ref kinds.
const (
	KDel    = 0
	KVal    = 1
	KPeeled = 2
	KSym    = 3
)

type Ref struct {
	Name   Str    `json:"n"`
	Idx    uint64 `json:"i"`
	Kind   int    `json:"k"`
	Val    Hex    `json:"v,omitempty"`
	Peeled Hex    `json:"p,omitempty"`
	Target Str    `json:"t,omitempty"`
}

func (r Ref) Record() *reftable.RefRecord {
	rec := &reftable.RefRecord{RefName: string(r.Name), UpdateIndex: r.Idx}
	switch r.Kind {
	case KVal:
		rec.Value = append([]byte{}, r.Val...)
	case KPeeled:
		rec.Value = append([]byte{}, r.Val...)
		rec.TargetValue = append([]byte{}, r.Peeled...)
	case KSym:
		rec.Target = string(r.Target)
	}
	return rec
}

// RefOf converts what the code under test returned into the harness form.
func RefOf(rec *reftable.RefRecord) Ref {
	r := Ref{Name: Str(rec.RefName), Idx: rec.UpdateIndex}
	switch {
	case rec.Value != nil && rec.TargetValue != nil:
		r.Kind = KPeeled
		r.Val = append(Hex{}, rec.Value...)
		r.Peeled = append(Hex{}, rec.TargetValue...)
	case rec.Value != nil:
		r.Kind = KVal
		r.Val = append(Hex{}, rec.Value...)
	case rec.TargetValue != nil:
		r.Kind = 9 // not expressible: peeled without value
		r.Peeled = append(Hex{}, rec.TargetValue...)
	case rec.Target != "":
		r.Kind = KSym
		r.Target = Str(rec.Target)
	}
	if rec.Target != "" && r.Kind != KSym {
		r.Kind = 10 // value and symref at once
		r.Target = Str(rec.Target)
	}
	return r
}

func (r Ref) Equal(o Ref) bool {
	return r.Name == o.Name && r.Idx == o.Idx && r.Kind == o.Kind && bytes.Equal(r.Val, o.Val) &&
		bytes.Equal(r.Peeled, o.Peeled) && r.Target == o.Target
}

func (r Ref) String() string {
	switch r.Kind {
	case KDel:
		return fmt.Sprintf("ref{%q@%d DEL}", string(r.Name), r.Idx)
	case KVal:
		return fmt.Sprintf("ref{%q@%d %x}", string(r.Name), r.Idx, []byte(r.Val))
	case KPeeled:
		return fmt.Sprintf("ref{%q@%d %x^%x}", string(r.Name), r.Idx, []byte(r.Val), []byte(r.Peeled))
	case KSym:
		return fmt.Sprintf("ref{%q@%d ->%q}", string(r.Name), r.Idx, string(r.Target))
	}
	return fmt.Sprintf("ref{%q@%d kind=%d %x %x %q}", string(r.Name), r.Idx, r.Kind, []byte(r.Val), []byte(r.Peeled), string(r.Target))
}

// PointsAt reports whether the ref's value or peeled value equals oid.
func (r Ref) PointsAt(oid []byte) bool {
	return (r.Kind == KVal || r.Kind == KPeeled) && bytes.Equal(r.Val, oid) || r.Kind == KPeeled && bytes.Equal(r.Peeled, oid)
}

type Log struct {
	Name  Str    `json:"n"`
	Idx   uint64 `json:"i"`
	Del   bool   `json:"del,omitempty"`
	Old   Hex    `json:"old,omitempty"`
	New   Hex    `json:"new,omitempty"`
	Who   Str    `json:"who,omitempty"`
	Email Str    `json:"email,omitempty"`
	Time  uint64 `json:"time,omitempty"`
	TZ    int16  `json:"tz,omitempty"`
	Msg   Str    `json:"msg,omitempty"`
}

func (l Log) Record() *reftable.LogRecord {
	rec := &reftable.LogRecord{RefName: string(l.Name), UpdateIndex: l.Idx}
	if l.Del {
		return rec
	}
	if l.Old != nil {
		rec.Old = append([]byte{}, l.Old...)
	}
	if l.New != nil {
		rec.New = append([]byte{}, l.New...)
	}
	rec.Name = string(l.Who)
	rec.Email = string(l.Email)
	rec.Time = l.Time
	rec.TZOffset = l.TZ
	rec.Message = string(l.Msg)
	return rec
}

func LogOf(rec *reftable.LogRecord) Log {
	l := Log{Name: Str(rec.RefName), Idx: rec.UpdateIndex}
	if rec.New == nil && rec.Old == nil && rec.Name == "" && rec.Email == "" && rec.Time == 0 && rec.TZOffset == 0 && rec.Message == "" {
		l.Del = true
		return l
	}
	if rec.Old != nil {
		l.Old = append(Hex{}, rec.Old...)
	}
	if rec.New != nil {
		l.New = append(Hex{}, rec.New...)
	}
	l.Who = Str(rec.Name)
	l.Email = Str(rec.Email)
	l.Time = rec.Time
	l.TZ = rec.TZOffset
	l.Msg = Str(rec.Message)
	return l
}

// Norm returns the record as a reader must return it after the documented
// normalisation: absent hashes read as zeros and, unless exact messages were
// requested, the message ends in exactly the newline that was added if missing.
func (l Log) Norm(hashSize int, exact bool) Log {
	if l.Del {
		return Log{Name: l.Name, Idx: l.Idx, Del: true}
	}
	n := l
	if n.Old == nil {
		n.Old = make(Hex, hashSize)
	}
	if n.New == nil {
		n.New = make(Hex, hashSize)
	}
	if !exact {
		m := string(n.Msg)
		if len(m) == 0 || m[len(m)-1] != '\n' {
			m += "\n"
		}
		n.Msg = Str(m)
	}
	return n
}

func (l Log) Equal(o Log) bool {
	return l.Name == o.Name && l.Idx == o.Idx && l.Del == o.Del && bytes.Equal(l.Old, o.Old) && bytes.Equal(l.New, o.New) &&
		l.Who == o.Who && l.Email == o.Email && l.Time == o.Time && l.TZ == o.TZ && l.Msg == o.Msg
}

func (l Log) String() string {
	if l.Del {
		return fmt.Sprintf("log{%q@%d DEL}", string(l.Name), l.Idx)
	}
	return fmt.Sprintf("log{%q@%d %x->%x %q<%q> %d %+d %q}", string(l.Name), l.Idx, []byte(l.Old), []byte(l.New), string(l.Who), string(l.Email), l.Time, l.TZ, string(l.Msg))
}

// LogKey is the sort key of a log record, computed from the format rules:
// name, NUL, big-endian bitwise complement of the update index.
func LogKey(name string, idx uint64) string {
	var suffix [9]byte
	binary.BigEndian.PutUint64(suffix[1:], ^idx)
	return name + string(suffix[:])
}

func (l Log) Key() string { return LogKey(string(l.Name), l.Idx) }

// SortRefs sorts by name and removes duplicate names (first wins).
func SortRefs(rs []Ref) []Ref {
	sort.SliceStable(rs, func(i, j int) bool { return rs[i].Name < rs[j].Name })
	out := rs[:0]
	for i, r := range rs {
		if i > 0 && r.Name == rs[i-1].Name {
			continue
		}
		out = append(out, r)
	}
	return out
}

// SortLogs sorts by key and removes duplicate keys.
func SortLogs(ls []Log) []Log {
	sort.SliceStable(ls, func(i, j int) bool { return ls[i].Key() < ls[j].Key() })
	out := ls[:0]
	for i, l := range ls {
		if i > 0 && l.Key() == ls[i-1].Key() {
			continue
		}
		out = append(out, l)
	}
	return out
}

// TableSpec is everything needed to write one table.
type TableSpec struct {
	Cfg  Cfg    `json:"cfg"`
	Min  uint64 `json:"min"`
	Max  uint64 `json:"max"`
	Refs []Ref  `json:"refs"`
	Logs []Log  `json:"logs"`
}

// Bulk describes very many tiny ref records programmatically (the case value
// stays small): used to reach the 65535-restart cap of a block.
type Bulk struct {
	N    int `json:"n"`
	Kind int `json:"kind"` // KDel or KSym
	// Lens, if set, selects the big-record shape instead: one record per entry, a deletion
	// for 0 and otherwise a symref whose target has that many bytes (records comparable in
	// size to a large block: blocks that end early with kilobytes of padding).
	Lens []int `json:"lens,omitempty"`
}

// Expand generates the records: names r0000000, r0000001, ...
func (b Bulk) Expand(min uint64) []Ref {
	if len(b.Lens) > 0 {
		var out []Ref
		for i, l := range b.Lens {
			r := Ref{Name: Str(fmt.Sprintf("r%07d", i)), Idx: min, Kind: KDel}
			if l > 0 {
				r.Kind = KSym
				r.Target = Str(strings.Repeat("refs/heads/target-", l/18+1)[:l])
			}
			out = append(out, r)
		}
		return out
	}
	out := make([]Ref, 0, b.N)
	for i := 0; i < b.N; i++ {
		r := Ref{Name: Str(fmt.Sprintf("r%07d", i)), Idx: min, Kind: b.Kind}
		if b.Kind == KSym {
			r.Target = "t"
		}
		out = append(out, r)
	}
	return out
}
