// Package model holds the reference models (oracles).  It does not import the
// package under test.
package model

import (
	"sort"

	"verifharness/gen"
)

// Table is one table's content as the reader must present it (logs already
// normalised), plus its limits.
type Table struct {
	Min, Max uint64
	Refs     []gen.Ref
	Logs     []gen.Log
}

// OverlayRefs merges tables oldest..newest: per name the record of the newest
// table containing it, in name order.  cooked drops deletion records.
func OverlayRefs(tabs []Table, cooked bool) []gen.Ref {
	m := map[string]gen.Ref{}
	for _, t := range tabs {
		for _, r := range t.Refs {
			m[string(r.Name)] = r
		}
	}
	out := make([]gen.Ref, 0, len(m))
	for _, r := range m {
		if cooked && r.Kind == gen.KDel {
			continue
		}
		out = append(out, r)
	}
	sort.Slice(out, func(i, j int) bool { return out[i].Name < out[j].Name })
	return out
}

// OverlayLogs does the same for log entries keyed by (name, update index).
func OverlayLogs(tabs []Table, cooked bool) []gen.Log {
	m := map[string]gen.Log{}
	for _, t := range tabs {
		for _, l := range t.Logs {
			m[l.Key()] = l
		}
	}
	out := make([]gen.Log, 0, len(m))
	for _, l := range m {
		if cooked && l.Del {
			continue
		}
		out = append(out, l)
	}
	sort.Slice(out, func(i, j int) bool { return out[i].Key() < out[j].Key() })
	return out
}

// RefsFor filters a ref list by object id.
func RefsFor(refs []gen.Ref, oid []byte) []gen.Ref {
	var out []gen.Ref
	for _, r := range refs {
		if r.PointsAt(oid) {
			out = append(out, r)
		}
	}
	return out
}

// Expiry mirrors reftable.LogExpirationConfig.
type Expiry struct {
	Time, Max, Min uint64
}

// Expire keeps exactly the entries that are not expired: an entry is expired
// when its time is older than the time limit or its update index lies outside
// the configured window (a zero limit is unset).
func Expire(logs []gen.Log, e Expiry) []gen.Log {
	var out []gen.Log
	for _, l := range logs {
		if e.Time > 0 && l.Time < e.Time {
			continue
		}
		if e.Max != 0 && l.Idx > e.Max {
			continue
		}
		if e.Min != 0 && l.Idx < e.Min {
			continue
		}
		out = append(out, l)
	}
	return out
}
