// Package specdec is a decoder and well-formedness checker for reftable files
// written from the format specification alone.  It shares no code with the
// repository under test (only the Go standard library), and walks the file
// sequentially instead of trusting the footer or the indexes, which it then
// validates against what it found.
package specdec

import (
	"bytes"
	"compress/zlib"
	"encoding/binary"
	"fmt"
	"hash/crc32"
	"io"
)

type Ref struct {
	Name   string
	Idx    uint64
	Kind   int // 0 deletion, 1 value, 2 value+peeled, 3 symref
	Val    []byte
	Peeled []byte
	Target string
}

type Log struct {
	Name  string
	Idx   uint64
	Del   bool
	Old   []byte
	New   []byte
	Who   string
	Email string
	Time  uint64
	TZ    int16
	Msg   string
}

type IndexEntry struct {
	Key string
	Pos uint64
	// where the position varint sits in the file (for structure-aware mutation)
	PosOff, PosLen int
}

type ObjEntry struct {
	Prefix    []byte
	Positions []uint64
	// file offset and length of the first position varint (0 when there is none)
	PosOff, PosLen int
	// file offset of the explicit position count (0 when the count sits in the key's low bits)
	CountOff int
}

// Index returns the index entries of an index block.
func (b *Block) Index() []IndexEntry { return b.index }

// Objs returns the object entries of an object block.
func (b *Block) Objs() []ObjEntry { return b.objs }

type Block struct {
	Off      uint64 // file offset where the block starts (0 for the first block)
	Type     byte
	Len      uint32 // block_len field
	Occupied uint64 // bytes of the file taken by the block incl. padding (or the deflated length)
	FirstKey string
	LastKey  string
	Records  int
	Restarts int
	// Varints lists where every varint field of the block's records starts, as an
	// offset from the start of the block (for a log block: into Content).
	Varints []int
	// Content is the inflated block (with its 4-byte header) of a log block.
	Content []byte

	refs  []Ref
	logs  []Log
	index []IndexEntry
	objs  []ObjEntry
}

type File struct {
	Version   int
	HashSize  int
	BlockSize uint32
	Min, Max  uint64

	RefIndexPos, ObjPos, ObjIndexPos, LogPos, LogIndexPos uint64
	ObjIDLen                                              int

	Blocks []Block
	Refs   []Ref
	Logs   []Log
	Objs   []ObjEntry

	RefIndexLevels, ObjIndexLevels, LogIndexLevels int
	ObjTruncated                                   int // object entries without a position list

	Errors []string
}

func (f *File) errf(format string, a ...interface{}) {
	if len(f.Errors) < 20 {
		f.Errors = append(f.Errors, fmt.Sprintf(format, a...))
	}
}

// varint is the "offset" varint of the pack format.
func varint(b []byte) (uint64, int) {
	if len(b) == 0 {
		return 0, -1
	}
	p := 0
	v := uint64(b[0] & 0x7f)
	for b[p]&0x80 != 0 {
		p++
		if p >= len(b) || p > 9 {
			return 0, -1
		}
		v = ((v + 1) << 7) | uint64(b[p]&0x7f)
	}
	return v, p + 1
}

func u24(b []byte) uint32 { return uint32(b[0])<<16 | uint32(b[1])<<8 | uint32(b[2]) }

// Decode parses data. hashSize is what the writer was configured with and
// aligned says whether blocks are padded to the block size.
func Decode(data []byte, hashSize int, aligned bool) *File {
	f := &File{}
	if len(data) < 24+68 {
		f.errf("file of %d bytes is shorter than header+footer", len(data))
		return f
	}
	if string(data[:4]) != "REFT" {
		f.errf("bad magic %q", data[:4])
		return f
	}
	f.Version = int(data[4])
	hdr, ftr := 24, 68
	switch f.Version {
	case 1:
		f.HashSize = 20
	case 2:
		hdr, ftr = 28, 72
		if len(data) < hdr+ftr {
			f.errf("file too short for version 2")
			return f
		}
		switch string(data[24:28]) {
		case "sha1":
			f.HashSize = 20
		case "s256":
			f.HashSize = 32
		default:
			f.errf("unknown hash id %q", data[24:28])
			return f
		}
	default:
		f.errf("unknown version %d", f.Version)
		return f
	}
	if f.HashSize != hashSize {
		f.errf("header declares a %d-byte hash, writer was configured for %d", f.HashSize, hashSize)
		return f
	}
	if hashSize == 32 && f.Version != 2 {
		f.errf("sha256 table with version %d", f.Version)
	}
	f.BlockSize = u24(data[5:8])
	f.Min = binary.BigEndian.Uint64(data[8:16])
	f.Max = binary.BigEndian.Uint64(data[16:24])
	if f.Min > f.Max {
		f.errf("min update index %d > max %d", f.Min, f.Max)
	}

	// footer
	foot := data[len(data)-ftr:]
	if !bytes.Equal(foot[:hdr], data[:hdr]) {
		f.errf("footer does not repeat the header")
	}
	if crc32.ChecksumIEEE(foot[:ftr-4]) != binary.BigEndian.Uint32(foot[ftr-4:]) {
		f.errf("footer CRC-32 mismatch")
	}
	p := foot[hdr:]
	f.RefIndexPos = binary.BigEndian.Uint64(p[0:])
	v := binary.BigEndian.Uint64(p[8:])
	f.ObjPos, f.ObjIDLen = v>>5, int(v&31)
	f.ObjIndexPos = binary.BigEndian.Uint64(p[16:])
	f.LogPos = binary.BigEndian.Uint64(p[24:])
	f.LogIndexPos = binary.BigEndian.Uint64(p[32:])

	body := data[:len(data)-ftr]
	bs := uint64(f.BlockSize)
	if bs == 0 {
		aligned = false
	}

	// ---- sequential walk over the blocks
	pos := uint64(0)
	for pos < uint64(len(body)) {
		if pos == 0 && len(body) == hdr {
			break // empty table: header only
		}
		hoff := uint64(0)
		if pos == 0 {
			hoff = uint64(hdr)
		}
		if pos+hoff+4 > uint64(len(body)) {
			f.errf("truncated block header at %d", pos)
			return f
		}
		typ := body[pos+hoff]
		blen := u24(body[pos+hoff+1:])
		b := Block{Off: pos, Type: typ, Len: blen}
		if typ != 'r' && typ != 'o' && typ != 'i' && typ != 'g' {
			f.errf("block at %d has invalid type %#x", pos, typ)
			return f
		}
		if uint64(blen) < hoff+4+2 {
			f.errf("block at %d: block_len %d too small", pos, blen)
			return f
		}
		if bs != 0 && uint64(blen) > bs {
			f.errf("block %c at %d: block_len %d exceeds the block size %d", typ, pos, blen, bs)
		}
		var content []byte // the block from its start (pos) to block_len, inflated for logs
		if typ == 'g' {
			zr := bytes.NewReader(body[pos+hoff+4:])
			r, err := zlib.NewReader(zr)
			if err != nil {
				f.errf("log block at %d: zlib header: %v", pos, err)
				return f
			}
			inflated, err := io.ReadAll(r)
			if err != nil {
				f.errf("log block at %d: inflate: %v", pos, err)
				return f
			}
			consumed := uint64(len(body[pos+hoff+4:]) - zr.Len())
			if uint64(len(inflated))+hoff+4 != uint64(blen) {
				f.errf("log block at %d: block_len %d but header+inflated data is %d bytes", pos, blen, uint64(len(inflated))+hoff+4)
				return f
			}
			content = append(append([]byte{}, body[pos:pos+hoff+4]...), inflated...)
			b.Content = content
			b.Occupied = hoff + 4 + consumed
		} else {
			if pos+uint64(blen) > uint64(len(body)) {
				f.errf("block %c at %d: block_len %d runs past the end of the blocks (%d)", typ, pos, blen, len(body))
				return f
			}
			content = body[pos : pos+uint64(blen)]
			end := pos + uint64(blen)
			switch {
			case end == uint64(len(body)):
				b.Occupied = uint64(blen) // last block: unpadded
			case !aligned:
				b.Occupied = uint64(blen)
			case body[end] == 'g':
				b.Occupied = uint64(blen) // block before the log section: unpadded
			default:
				next := pos + bs
				if next > uint64(len(body)) {
					f.errf("block %c at %d is neither last nor followed by a block at %d", typ, pos, next)
					return f
				}
				for i := end; i < next; i++ {
					if body[i] != 0 {
						f.errf("block %c at %d: padding byte at %d is %#x, not zero", typ, pos, i, body[i])
						break
					}
				}
				b.Occupied = bs
			}
			if aligned && pos%bs != 0 && !f.afterLogs() {
				f.errf("block %c at %d does not start at a multiple of the block size %d", typ, pos, bs)
			}
		}
		if !f.parseBlock(&b, content, int(hoff)) {
			return f
		}
		f.Blocks = append(f.Blocks, b)
		pos += b.Occupied
	}
	f.sections()
	return f
}

func (f *File) afterLogs() bool {
	for _, b := range f.Blocks {
		if b.Type == 'g' {
			return true
		}
	}
	return false
}

// parseBlock decodes the records and the restart table of one block.
func (f *File) parseBlock(b *Block, c []byte, hoff int) bool {
	n := len(c)
	rc := int(binary.BigEndian.Uint16(c[n-2:]))
	rstart := n - 2 - 3*rc
	if rstart < hoff+4 {
		f.errf("block %c at %d: %d restarts do not fit in block_len %d", b.Type, b.Off, rc, n)
		return false
	}
	b.Restarts = rc
	recs := c[:rstart]
	p := hoff + 4
	boundaries := map[int]bool{} // record start -> prefix length is 0
	last := ""
	first := true
	for p < len(recs) {
		start := p
		pl, k := varint(recs[p:])
		if k < 0 {
			f.errf("block %c at %d: bad prefix varint at %d", b.Type, b.Off, p)
			return false
		}
		b.Varints = append(b.Varints, p)
		p += k
		b.Varints = append(b.Varints, p)
		sv, k := varint(recs[p:])
		if k < 0 {
			f.errf("block %c at %d: bad suffix varint at %d", b.Type, b.Off, p)
			return false
		}
		p += k
		extra := int(sv & 7)
		sl := sv >> 3
		if uint64(len(recs)-p) < sl || pl > uint64(len(last)) {
			f.errf("block %c at %d: key of record at %d out of bounds (prefix %d of %d, suffix %d)", b.Type, b.Off, start, pl, len(last), sl)
			return false
		}
		key := last[:pl] + string(recs[p:p+int(sl)])
		p += int(sl)
		if first && pl != 0 {
			f.errf("block %c at %d: first record has prefix length %d", b.Type, b.Off, pl)
		}
		boundaries[start] = pl == 0
		if !first && key <= last {
			f.errf("block %c at %d: key %q not above previous key %q", b.Type, b.Off, key, last)
		}
		var ok bool
		p, ok = f.parseValue(b, recs, p, key, extra)
		if !ok {
			return false
		}
		if first {
			b.FirstKey = key
		}
		last = key
		first = false
		b.Records++
	}
	b.LastKey = last
	if b.Records == 0 {
		f.errf("block %c at %d holds no records", b.Type, b.Off)
	}
	if rc == 0 && b.Records > 0 {
		f.errf("block %c at %d has records but no restart points", b.Type, b.Off)
	}
	prev := -1
	for i := 0; i < rc; i++ {
		off := int(u24(c[rstart+3*i:]))
		if off <= prev {
			f.errf("block %c at %d: restart offsets not strictly ascending (%d after %d)", b.Type, b.Off, off, prev)
		}
		prev = off
		z, isStart := boundaries[off]
		if !isStart {
			f.errf("block %c at %d: restart offset %d is not a record boundary", b.Type, b.Off, off)
		} else if !z {
			f.errf("block %c at %d: restart offset %d points at a record with a non-zero prefix length", b.Type, b.Off, off)
		}
	}
	return true
}

func (f *File) parseValue(b *Block, recs []byte, p int, key string, extra int) (int, bool) {
	fail := func(what string) (int, bool) {
		f.errf("block %c at %d: record %q: %s", b.Type, b.Off, key, what)
		return 0, false
	}
	hs := f.HashSize
	switch b.Type {
	case 'r':
		d, k := varint(recs[p:])
		if k < 0 {
			return fail("bad update index delta")
		}
		b.Varints = append(b.Varints, p)
		p += k
		r := Ref{Name: key, Idx: f.Min + d, Kind: extra}
		if r.Idx > f.Max || r.Idx < f.Min {
			f.errf("ref %q: update index %d outside the header's range [%d,%d]", key, r.Idx, f.Min, f.Max)
		}
		switch extra {
		case 0:
		case 1, 2:
			if len(recs)-p < hs*extra {
				return fail("value truncated")
			}
			r.Val = append([]byte{}, recs[p:p+hs]...)
			p += hs
			if extra == 2 {
				r.Peeled = append([]byte{}, recs[p:p+hs]...)
				p += hs
			}
		case 3:
			tl, k := varint(recs[p:])
			if k < 0 || uint64(len(recs)-p-k) < tl {
				return fail("symref target truncated")
			}
			b.Varints = append(b.Varints, p)
			p += k
			r.Target = string(recs[p : p+int(tl)])
			p += int(tl)
		default:
			return fail(fmt.Sprintf("invalid value type %d", extra))
		}
		if key == "" {
			f.errf("ref with empty name")
		}
		b.refs = append(b.refs, r)
	case 'i':
		if extra != 0 {
			f.errf("index record %q has value type %d", key, extra)
		}
		pos, k := varint(recs[p:])
		if k < 0 {
			return fail("bad block position")
		}
		b.index = append(b.index, IndexEntry{Key: key, Pos: pos, PosOff: int(b.Off) + p, PosLen: k})
		b.Varints = append(b.Varints, p)
		p += k
	case 'o':
		cnt := uint64(extra)
		countOff := 0
		if extra == 0 {
			c, k := varint(recs[p:])
			if k < 0 {
				return fail("bad position count")
			}
			countOff = int(b.Off) + p
			b.Varints = append(b.Varints, p)
			p += k
			cnt = c
		}
		e := ObjEntry{Prefix: []byte(key), CountOff: countOff}
		var lastPos uint64
		for i := uint64(0); i < cnt; i++ {
			d, k := varint(recs[p:])
			if k < 0 {
				return fail("bad position delta")
			}
			b.Varints = append(b.Varints, p)
			p += k
			if i == 0 {
				lastPos = d
				e.PosOff, e.PosLen = int(b.Off)+p-k, k
			} else {
				if d == 0 {
					f.errf("object entry %x: repeated position", e.Prefix)
				}
				lastPos += d
			}
			e.Positions = append(e.Positions, lastPos)
		}
		b.objs = append(b.objs, e)
	case 'g':
		if len(key) < 10 || key[len(key)-9] != 0 {
			return fail("log key is not name NUL 8-byte index")
		}
		l := Log{Name: key[:len(key)-9], Idx: ^binary.BigEndian.Uint64([]byte(key[len(key)-8:]))}
		for i := 0; i < len(l.Name); i++ {
			if l.Name[i] == 0 {
				f.errf("log record for a name containing NUL")
			}
		}
		switch extra {
		case 0:
			l.Del = true
		case 1:
			if len(recs)-p < 2*hs {
				return fail("hashes truncated")
			}
			l.Old = append([]byte{}, recs[p:p+hs]...)
			l.New = append([]byte{}, recs[p+hs:p+2*hs]...)
			p += 2 * hs
			str := func() (string, bool) {
				n, k := varint(recs[p:])
				if k < 0 || uint64(len(recs)-p-k) < n {
					return "", false
				}
				b.Varints = append(b.Varints, p)
				p += k
				s := string(recs[p : p+int(n)])
				p += int(n)
				return s, true
			}
			var ok bool
			if l.Who, ok = str(); !ok {
				return fail("name truncated")
			}
			if l.Email, ok = str(); !ok {
				return fail("email truncated")
			}
			t, k := varint(recs[p:])
			if k < 0 {
				return fail("bad time")
			}
			b.Varints = append(b.Varints, p)
			p += k
			l.Time = t
			if len(recs)-p < 2 {
				return fail("tz truncated")
			}
			l.TZ = int16(binary.BigEndian.Uint16(recs[p:]))
			p += 2
			if l.Msg, ok = str(); !ok {
				return fail("message truncated")
			}
		default:
			return fail(fmt.Sprintf("invalid log type %d", extra))
		}
		b.logs = append(b.logs, l)
	}
	return p, true
}

// sections groups the blocks found by the walk into the sections the format
// prescribes and validates order, keys, indexes, object index and footer.
func (f *File) sections() {
	i := 0
	n := len(f.Blocks)
	take := func(t byte) []Block {
		s := i
		for i < n && f.Blocks[i].Type == t {
			i++
		}
		return f.Blocks[s:i]
	}
	refBlocks := take('r')
	refIdx := take('i')
	objBlocks := take('o')
	var objIdx []Block
	if len(objBlocks) > 0 {
		objIdx = take('i')
	}
	logBlocks := take('g')
	var logIdx []Block
	if len(logBlocks) > 0 {
		logIdx = take('i')
	}
	if i != n {
		f.errf("unexpected block %c at %d after the sections (order must be refs, ref index, objects, object index, logs, log index)", f.Blocks[i].Type, f.Blocks[i].Off)
	}
	if len(refBlocks) == 0 && len(refIdx) > 0 {
		f.errf("index blocks without a ref section")
	}
	ascending := func(name string, bl []Block) {
		for j := 1; j < len(bl); j++ {
			if bl[j].FirstKey <= bl[j-1].LastKey {
				f.errf("%s: first key %q of block at %d is not above last key %q of the previous block", name, bl[j].FirstKey, bl[j].Off, bl[j-1].LastKey)
			}
		}
	}
	ascending("ref section", refBlocks)
	ascending("object section", objBlocks)
	ascending("log section", logBlocks)
	for _, b := range refBlocks {
		f.Refs = append(f.Refs, b.refs...)
	}
	for _, b := range logBlocks {
		f.Logs = append(f.Logs, b.logs...)
	}
	for _, b := range objBlocks {
		f.Objs = append(f.Objs, b.objs...)
	}

	f.RefIndexLevels = f.checkIndex("ref", refBlocks, refIdx, f.RefIndexPos)
	f.ObjIndexLevels = f.checkIndex("object", objBlocks, objIdx, f.ObjIndexPos)
	f.LogIndexLevels = f.checkIndex("log", logBlocks, logIdx, f.LogIndexPos)

	// footer positions of the sections
	if len(objBlocks) > 0 {
		if f.ObjPos != objBlocks[0].Off {
			f.errf("footer object position %d, first object block is at %d", f.ObjPos, objBlocks[0].Off)
		}
	} else if f.ObjPos != 0 {
		f.errf("footer object position %d but there is no object block", f.ObjPos)
	}
	if len(logBlocks) > 0 {
		if f.LogPos != logBlocks[0].Off {
			f.errf("footer log position %d, first log block is at %d", f.LogPos, logBlocks[0].Off)
		}
	} else if f.LogPos != 0 {
		f.errf("footer log position %d but there is no log block", f.LogPos)
	}
	if len(refBlocks) > 0 && refBlocks[0].Off != 0 {
		f.errf("ref section does not start the file")
	}
	f.checkObjects(refBlocks)
}

// checkIndex validates the index blocks that follow a section: level by
// level, every entry names the last key and the position of an existing child
// and the children of a level are exactly all blocks of the level below.
func (f *File) checkIndex(name string, data, idx []Block, footerPos uint64) int {
	if len(idx) == 0 {
		if footerPos != 0 {
			f.errf("%s section: footer names an index at %d but there are no index blocks", name, footerPos)
		}
		return 0
	}
	if len(data) == 0 {
		f.errf("%s section: index blocks without data blocks", name)
		return 0
	}
	children := data
	rest := idx
	levels := 0
	var top []Block
	for len(rest) > 0 {
		levels++
		ci := 0
		used := 0
		for used < len(rest) && ci < len(children) {
			b := rest[used]
			for _, e := range b.index {
				if ci >= len(children) {
					f.errf("%s index level %d: block at %d has an entry %q -> %d beyond the last child", name, levels, b.Off, e.Key, e.Pos)
					return levels
				}
				ch := children[ci]
				if e.Pos != ch.Off {
					f.errf("%s index level %d: entry %q points at %d, the next child block is at %d", name, levels, e.Key, e.Pos, ch.Off)
					return levels
				}
				if e.Key != ch.LastKey {
					f.errf("%s index level %d: entry for block at %d has key %q, the block's last key is %q", name, levels, ch.Off, e.Key, ch.LastKey)
				}
				ci++
			}
			used++
		}
		if ci != len(children) {
			f.errf("%s index level %d covers %d of %d child blocks", name, levels, ci, len(children))
			return levels
		}
		top = rest[:used]
		for j := 1; j < len(top); j++ {
			if top[j].FirstKey <= top[j-1].LastKey {
				f.errf("%s index level %d: keys not ascending across blocks", name, levels)
			}
		}
		children = top
		rest = rest[used:]
		if len(top) == 1 && len(rest) > 0 {
			f.errf("%s index: %d index blocks follow the single-block top level", name, len(rest))
			return levels
		}
	}
	if footerPos != top[0].Off {
		f.errf("%s section: footer index position %d, top index level starts at %d", name, footerPos, top[0].Off)
	}
	return levels
}

// checkObjects validates the object index against the refs found by the walk.
func (f *File) checkObjects(refBlocks []Block) {
	if len(f.Objs) == 0 {
		return
	}
	if f.ObjIDLen < 1 || f.ObjIDLen > f.HashSize {
		f.errf("object id length %d out of range", f.ObjIDLen)
		return
	}
	want := map[string][]uint64{}
	for _, b := range refBlocks {
		seen := map[string]bool{}
		for _, r := range b.refs {
			for _, h := range [][]byte{r.Val, r.Peeled} {
				if h == nil {
					continue
				}
				p := string(h[:f.ObjIDLen])
				if !seen[p] {
					seen[p] = true
					want[p] = append(want[p], b.Off)
				}
			}
		}
	}
	got := map[string]bool{}
	for _, e := range f.Objs {
		p := string(e.Prefix)
		if len(e.Prefix) != f.ObjIDLen {
			f.errf("object entry %x has length %d, footer says %d", e.Prefix, len(e.Prefix), f.ObjIDLen)
			continue
		}
		if got[p] {
			f.errf("object entry %x occurs twice", e.Prefix)
		}
		got[p] = true
		w, ok := want[p]
		if !ok {
			f.errf("object entry %x matches no object id in any ref", e.Prefix)
			continue
		}
		if len(e.Positions) == 0 {
			f.ObjTruncated++
			continue
		}
		if len(w) != len(e.Positions) {
			f.errf("object entry %x lists %d ref blocks %v, ids with that prefix occur in %d blocks %v", e.Prefix, len(e.Positions), e.Positions, len(w), w)
			continue
		}
		for j := range w {
			if w[j] != e.Positions[j] {
				f.errf("object entry %x lists blocks %v, ids with that prefix occur in blocks %v", e.Prefix, e.Positions, w)
				break
			}
		}
	}
	for p := range want {
		if !got[p] {
			f.errf("object id prefix %x occurs in refs but has no object-index entry", p)
			break
		}
	}
}
