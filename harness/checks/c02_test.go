package checks

import (
	"math"
	"sort"
	"testing"
	. "verifharness/hist"

	"github.com/google/reftable"
	"pgregory.net/rapid"
	. "verifharness/evid"
	"verifharness/gen"
)

type c02Case struct {
	Bulk      *gen.Bulk     `json:"bulk,omitempty"` // refs generated programmatically (restart-cap shape)
	Table     gen.TableSpec `json:"table"`
	ExtraKeys []Str         `json:"extra_keys"`
	ExtraIdx  []uint64      `json:"extra_idx"`
}

func genC02(t *rapid.T) c02Case {
	c := c02Case{}
	if rapid.IntRange(0, 199).Draw(t, "bulk") == 77 {
		c.Table, c.Bulk = drawBulk(t)
		return c
	}
	c.Table = gen.DrawTable(t, gen.TableOpts{MaxRefs: 170, MaxLogs: 50, SmallBlocks: true})
	if rapid.IntRange(0, 49).Draw(t, "big") == 23 {
		c.Table, c.Bulk = drawBig(t)
	}
	ng := gen.NewNameGen(t)
	n := rapid.IntRange(0, 6).Draw(t, "nextra")
	for i := 0; i < n; i++ {
		c.ExtraKeys = append(c.ExtraKeys, Str(ng.Draw(t, 40)))
		c.ExtraIdx = append(c.ExtraIdx, rapid.Uint64().Draw(t, "xidx"))
	}
	return c
}

// neighbours returns the key classes induced by one stored key.
func neighbours(k string) []string {
	out := []string{k, k + "\x00", k + "\xff"}
	if len(k) > 0 {
		out = append(out, k[:len(k)-1])
		b := []byte(k)
		if b[len(b)-1] < 0xff {
			b[len(b)-1]++
			out = append(out, string(b))
		}
		b = []byte(k)
		if b[len(b)-1] > 0 {
			b[len(b)-1]--
			out = append(out, string(b), string(b)+"\xff")
		}
	}
	return out
}

func uniq(ss []string) []string {
	sort.Strings(ss)
	out := ss[:0]
	for i, s := range ss {
		if i == 0 || s != ss[i-1] {
			out = append(out, s)
		}
	}
	return out
}

// compareSuffix reads from it and compares with want; when !full only the
// first few records and the total count are compared.
func compareRefSuffix(it *reftable.Iterator, want []gen.Ref, full bool) string {
	got, err := ScanRefs(it)
	if err != nil {
		return "iteration error: " + err.Error()
	}
	if full || len(want) <= 3 {
		return DiffRefs(got, want)
	}
	if len(got) != len(want) {
		return DiffRefs(got, want)
	}
	return DiffRefs(got[:3], want[:3])
}

func compareLogSuffix(it *reftable.Iterator, want []gen.Log, full bool) string {
	got, err := ScanLogs(it)
	if err != nil {
		return "iteration error: " + err.Error()
	}
	if full || len(want) <= 3 || len(got) != len(want) {
		return DiffLogs(got, want)
	}
	return DiffLogs(got[:3], want[:3])
}

// CheckSeeks verifies the seek contract of tab against the expected full
// sequences (refs sorted by name, logs sorted by key).  Shared by C02/C03.
func CheckSeeks(sigPrefix string, tab reftable.Table, refs []gen.Ref, logs []gen.Log, extraKeys []Str, extraIdx []uint64, o *Obs) error {
	// ---- refs
	var keys []string
	keys = append(keys, "", "\x00", "\xff\xff\xff")
	for i, r := range refs {
		keys = append(keys, neighbours(string(r.Name))...)
		if i%7 == 0 {
			for p := 1; p < len(r.Name); p++ {
				keys = append(keys, string(r.Name[:p]))
			}
		}
	}
	for _, k := range extraKeys {
		keys = append(keys, string(k))
	}
	keys = uniq(keys)
	full := len(refs) <= 64
	for i, k := range keys {
		pos := sort.Search(len(refs), func(j int) bool { return string(refs[j].Name) >= k })
		it, err := tab.SeekRef(k)
		if err != nil {
			return Failf(sigPrefix+"/seekref-error", "SeekRef(%q): %v", k, err)
		}
		if d := compareRefSuffix(it, refs[pos:], full || i%9 == 0); d != "" {
			return Failf(sigPrefix+"/seekref-mismatch", "SeekRef(%q) (expected suffix starts at #%d of %d): %s", k, pos, len(refs), d)
		}
		// ReadRef
		rec, err := reftable.ReadRef(tab, k)
		if err != nil {
			return Failf(sigPrefix+"/readref-error", "ReadRef(%q): %v", k, err)
		}
		present := pos < len(refs) && string(refs[pos].Name) == k
		if present != (rec != nil) {
			return Failf(sigPrefix+"/readref-mismatch", "ReadRef(%q): got %v, present in table: %v", k, rec, present)
		}
		if rec != nil && !gen.RefOf(rec).Equal(refs[pos]) {
			return Failf(sigPrefix+"/readref-mismatch", "ReadRef(%q): got %v want %v", k, gen.RefOf(rec), refs[pos])
		}
	}
	o.Count("ref_seeks", len(keys))

	// ---- logs
	type lk struct {
		name string
		idx  uint64
	}
	var lkeys []lk
	lkeys = append(lkeys, lk{"", math.MaxUint64}, lk{"", 0}, lk{"\xff\xff", 5})
	var names []string
	for _, l := range logs {
		names = append(names, string(l.Name))
		for _, u := range []uint64{l.Idx, l.Idx + 1, l.Idx - 1, 0, math.MaxUint64} {
			lkeys = append(lkeys, lk{string(l.Name), u})
		}
	}
	names = uniq(names)
	for _, n := range names {
		for _, nb := range neighbours(n)[1:] {
			lkeys = append(lkeys, lk{nb, math.MaxUint64}, lk{nb, 0})
		}
	}
	for i, k := range extraKeys {
		lkeys = append(lkeys, lk{string(k), extraIdx[i]})
	}
	seen := map[lk]bool{}
	fullL := len(logs) <= 64
	nl := 0
	for i, k := range lkeys {
		if seen[k] {
			continue
		}
		seen[k] = true
		nl++
		key := gen.LogKey(k.name, k.idx)
		pos := sort.Search(len(logs), func(j int) bool { return logs[j].Key() >= key })
		it, err := tab.SeekLog(k.name, k.idx)
		if err != nil {
			return Failf(sigPrefix+"/seeklog-error", "SeekLog(%q,%d): %v", k.name, k.idx, err)
		}
		if d := compareLogSuffix(it, logs[pos:], fullL || i%9 == 0); d != "" {
			return Failf(sigPrefix+"/seeklog-mismatch", "SeekLog(%q,%d) (expected suffix starts at #%d of %d): %s", k.name, k.idx, pos, len(logs), d)
		}
		if k.name == "" {
			continue
		}
		rec, err := reftable.ReadLogAt(tab, k.name, k.idx)
		if err != nil {
			return Failf(sigPrefix+"/readlog-error", "ReadLogAt(%q,%d): %v", k.name, k.idx, err)
		}
		// the newest entry of that ref at or below idx
		present := pos < len(logs) && string(logs[pos].Name) == k.name
		if present != (rec != nil) {
			return Failf(sigPrefix+"/readlog-mismatch", "ReadLogAt(%q,%d): got %v, want present=%v", k.name, k.idx, rec, present)
		}
		if rec != nil && !gen.LogOf(rec).Equal(logs[pos]) {
			return Failf(sigPrefix+"/readlog-mismatch", "ReadLogAt(%q,%d): got %v want %v", k.name, k.idx, gen.LogOf(rec), logs[pos])
		}
	}
	o.Count("log_seeks", nl)
	return nil
}

// bulkSeeks: sampled seeks into one huge block (tens of thousands of restart points).
func bulkSeeks(rd *reftable.Reader, refs []gen.Ref, o *Obs) error {
	n := len(refs)
	var pos []int
	for i := 0; i < n; i += n/37 + 1 {
		pos = append(pos, i)
	}
	pos = append(pos, 1, 21844, 21845, 21846, 32767, 32768, 65534, 65535, 65536, n-2, n-1)
	for _, i := range pos {
		if i < 0 || i >= n {
			continue
		}
		for _, key := range []string{string(refs[i].Name), string(refs[i].Name) + "\x00", string(refs[i].Name[:len(refs[i].Name)-1])} {
			want := sort.Search(n, func(j int) bool { return string(refs[j].Name) >= key })
			it, err := rd.SeekRef(key)
			if err != nil {
				return Failf("C02/bulk/seekref-error", "SeekRef(%q) in a block of %d records: %v", key, n, err)
			}
			for k := 0; k < 3; k++ {
				var rec reftable.RefRecord
				ok, err := it.NextRef(&rec)
				if err != nil {
					return Failf("C02/bulk/seekref-error", "SeekRef(%q) iteration: %v", key, err)
				}
				if want+k >= n {
					if ok {
						return Failf("C02/bulk/seekref-mismatch", "SeekRef(%q): record %v beyond the end", key, gen.RefOf(&rec))
					}
					break
				}
				if !ok || !gen.RefOf(&rec).Equal(refs[want+k]) {
					return Failf("C02/bulk/seekref-mismatch", "SeekRef(%q) record #%d: got %v (ok=%v) want %v", key, k, gen.RefOf(&rec), ok, refs[want+k])
				}
			}
		}
	}
	o.Count("ref_seeks", 3*len(pos))
	return nil
}

func propC02(c c02Case, o *Obs) error {
	spec := c.Table
	if c.Bulk != nil && len(c.Bulk.Lens) > 0 {
		spec.Refs = c.Bulk.Expand(spec.Min)
		o.Class("big-records-in-big-blocks")
	} else if c.Bulk != nil {
		spec.Refs = c.Bulk.Expand(spec.Min)
		o.Class("bulk-restart-cap")
		data, _, _, err := WriteTable(spec)
		if err != nil {
			return Failf("C02/write-error", "%v", err)
		}
		rd, err := reftable.NewReader(&reftable.ByteBlockSource{Source: data}, "t")
		if err != nil {
			return Failf("C02/open", "NewReader: %v", err)
		}
		o.Nontrivial = true
		return bulkSeeks(rd, spec.Refs, o)
	}
	data, st, rejected, err := WriteTable(spec)
	if rejected {
		o.Rejected()
		return nil
	}
	if err != nil {
		return Failf("C02/write-error", "writer refused an in-domain table: %v", err)
	}
	ShapeClasses(o, spec, st)
	rd, err := reftable.NewReader(&reftable.ByteBlockSource{Source: data}, "t")
	if err != nil {
		return Failf("C02/open", "NewReader: %v", err)
	}
	if err := CheckSeeks("C02", rd, spec.Refs, NormLogs(spec.Logs, spec.Cfg), c.ExtraKeys, c.ExtraIdx, o); err != nil {
		return err
	}
	o.Nontrivial = (st.RefStats.Blocks >= 2 && len(spec.Refs) >= 2) || (st.LogStats.Blocks >= 2 && len(spec.Logs) >= 2)
	o.ClassIf(st.RefStats.IndexBlocks > 0 && (st.ObjStats.Blocks > 0 || st.LogStats.Blocks > 0), "refindex+later-section")
	o.ClassIf(st.RefStats.MaxIndexLevel >= 1 && st.RefStats.IndexBlocks > 1 && st.RefStats.MaxIndexLevel == 1, "multiblock-top-index")
	return nil
}

func TestC02(t *testing.T) { Run(t, "C02", genC02, propC02) }
