package checks

import (
	"fmt"
	"os"
	"strings"
	"testing"
	. "verifharness/hist"

	"github.com/google/reftable"
	"pgregory.net/rapid"
	. "verifharness/evid"
	"verifharness/gen"
)

// The pool is closed under "parent of": every nested name has its ancestors in it, and most
// directories have two or more children (siblings that sort next to a deeper name).
var c12Names = []string{"a", "b", "c", "a/b", "a/b/c", "a/c", "ab", "b/a", "a/bc", "c/d", "c/d/e", "a/b/c/d", "b/a/x",
	"a/a", "a/c/d", "c/a", "c/d/a", "b/a/a", "b/a/x/y"}
var c12Invalid = []string{"a//b", "a/./b", "a/../b", "/a", "a/", ".", "..", "a/.", "../a", "b/.."}

type c12Op struct {
	Multi   bool  `json:"multi,omitempty"`
	Abandon bool  `json:"abandon,omitempty"` // multi only: Close without Commit
	Txs     []HTx `json:"txs"`
}

type c12Case struct {
	Cfg  gen.Cfg `json:"cfg"`
	Auto bool    `json:"auto"`
	Ops  []c12Op `json:"ops"`
}

// drawC12Name: from the fixed pool, or (grown) 1..4 components over a tiny alphabet, so that
// every parent/child/sibling constellation up to depth 4 can occur.
func drawC12Name(t *rapid.T, grown bool) string {
	if !grown {
		return rapid.SampledFrom(c12Names).Draw(t, "name")
	}
	d := rapid.IntRange(1, 4).Draw(t, "depth")
	var comps []string
	for i := 0; i < d; i++ {
		// besides plain siblings, components that continue a sibling with a byte that sorts
		// BEFORE '/' ('!', '+', '-', '.') or right after it ('0'): in byte order such names fall
		// between a name and its children (a < a.b < a/b < a0), which matters to any
		// implementation that looks for conflicts among sorted neighbours
		comps = append(comps, rapid.SampledFrom([]string{"a", "b", "c", "ab", "a", "b", "a.b", "a-", "a+c", "a!", "a0", "b.", "..b"}).Draw(t, "comp"))
	}
	return strings.Join(comps, "/")
}

func drawC12Tx(t *rapid.T, hs int, grown bool) HTx {
	tx := HTx{}
	n := rapid.IntRange(1, 4).Draw(t, "nrec")
	for i := 0; i < n; i++ {
		name := drawC12Name(t, grown)
		if rapid.IntRange(0, 11).Draw(t, "invalid") == 0 {
			name = rapid.SampledFrom(c12Invalid).Draw(t, "badname")
		}
		r := HRef{Name: Str(name)}
		switch rapid.IntRange(0, 5).Draw(t, "kind") {
		case 0, 1:
			r.Kind = gen.KDel
		case 2, 3:
			r.Kind = gen.KVal
			r.Val = PoolHash(t, hs)
		case 4:
			r.Kind = gen.KPeeled
			r.Val, r.Peeled = PoolHash(t, hs), PoolHash(t, hs)
		case 5:
			r.Kind = gen.KSym
			r.Target = Str(drawC12Name(t, grown))
		}
		tx.Refs = append(tx.Refs, r)
	}
	return tx
}

func genC12(t *rapid.T) c12Case {
	c := c12Case{}
	c.Cfg = DrawStackCfg(t)
	c.Cfg.SkipNameCheck = rapid.IntRange(0, 4).Draw(t, "skipname") == 0
	c.Auto = rapid.Bool().Draw(t, "auto")
	n := rapid.IntRange(3, 25).Draw(t, "nops")
	grown := rapid.Bool().Draw(t, "grownNames")
	for i := 0; i < n; i++ {
		op := c12Op{}
		if rapid.IntRange(0, 3).Draw(t, "multi") == 0 {
			op.Multi = true
			m := rapid.IntRange(2, 3).Draw(t, "ntx")
			for j := 0; j < m; j++ {
				op.Txs = append(op.Txs, drawC12Tx(t, c.Cfg.HashSize(), grown))
			}
			op.Abandon = rapid.IntRange(0, 5).Draw(t, "abandon") == 0
		} else {
			op.Txs = []HTx{drawC12Tx(t, c.Cfg.HashSize(), grown)}
		}
		c.Ops = append(c.Ops, op)
	}
	return c
}

func validName(n string) bool {
	for _, comp := range strings.Split(n, "/") {
		if comp == "" || comp == "." || comp == ".." {
			return false
		}
	}
	return true
}

// conflictFree: no live name is a directory prefix of another.
func conflictFree(live map[string]gen.Ref) (string, string, bool) {
	for x := range live {
		for y := range live {
			if strings.HasPrefix(y, x+"/") {
				return x, y, false
			}
		}
	}
	return "", "", true
}

// legal decides, from the property's wording alone, whether committing refs on
// top of s creates a state with an invalid or conflicting live name.
func legal(s *Store, refs []gen.Ref) (bool, string) {
	tmp := s.Clone()
	for _, r := range refs {
		if r.Kind != gen.KDel && !validName(string(r.Name)) {
			return false, fmt.Sprintf("adds invalid name %q", string(r.Name))
		}
	}
	tmp.Apply(refs, nil)
	if x, y, ok := conflictFree(tmp.Refs); !ok {
		return false, fmt.Sprintf("%q and %q would both be live", x, y)
	}
	return true, ""
}

func relatedDelAdd(refs []gen.Ref) bool {
	for _, d := range refs {
		if d.Kind != gen.KDel {
			continue
		}
		for _, a := range refs {
			if a.Kind == gen.KDel {
				continue
			}
			if strings.HasPrefix(string(a.Name), string(d.Name)+"/") || strings.HasPrefix(string(d.Name), string(a.Name)+"/") {
				return true
			}
		}
	}
	return false
}

func propC12(c c12Case, o *Obs) error {
	dir := ScratchDir()
	defer os.RemoveAll(dir)
	cfg := c.Cfg.Config()
	st, err := reftable.NewStack(dir, cfg)
	if err != nil {
		return Failf("C12/open", "NewStack: %v", err)
	}
	defer st.Close()
	st.VerifSetAutoCompact(c.Auto)
	store := NewStore()
	check := !c.Cfg.SkipNameCheck
	nontrivial := false
	rejected, accepted := 0, 0

	for i, op := range c.Ops {
		what := fmt.Sprintf("step %d", i)
		if !op.Multi {
			tx := op.Txs[0]
			var refs []gen.Ref
			var min, max uint64
			err := st.Add(func(w *reftable.Writer) error {
				min = st.NextUpdateIndex()
				refs, _, max = tx.Resolve(min, store, c.Cfg)
				return WriteFn(min, max, refs, nil)(w)
			})
			ok, why := legal(store, refs)
			if !check {
				ok = true
			}
			if relatedDelAdd(refs) {
				nontrivial = true
				o.Class("tx-with-related-delete+add")
			}
			switch {
			case ok && err != nil:
				return Failf("C12/legal-refused", "%s: legal transaction %v refused: %v (live: %v)", what, refs, err, liveNames(store))
			case !ok && err == nil:
				return Failf("C12/illegal-accepted", "%s: transaction %v accepted although %s (live before: %v)", what, refs, why, liveNames(store))
			}
			if err == nil {
				store.Apply(refs, nil)
				accepted++
			} else {
				rejected++
			}
		} else {
			nontrivial = true
			o.Class("multi-table-addition")
			tr, err := st.NewAddition()
			if err != nil {
				return Failf("C12/newaddition", "%s: NewAddition: %v", what, err)
			}
			tmp := store.Clone()
			next := st.NextUpdateIndex()
			failed := false
			for j, tx := range op.Txs {
				refs, _, max := tx.Resolve(next, tmp, c.Cfg)
				err := tr.Add(WriteFn(next, max, refs, nil))
				ok, why := legal(tmp, refs)
				if !check {
					ok = true
				}
				if relatedDelAdd(refs) {
					o.Class("tx-with-related-delete+add")
				}
				switch {
				case ok && err != nil:
					tr.Close()
					return Failf("C12/multi/legal-refused", "%s table %d: legal transaction %v refused: %v (live incl. earlier tables of this addition: %v)", what, j, refs, err, liveNames(tmp))
				case !ok && err == nil:
					tr.Close()
					return Failf("C12/multi/illegal-accepted", "%s table %d: transaction %v accepted although %s (live incl. earlier tables of this addition: %v)", what, j, refs, why, liveNames(tmp))
				}
				if err != nil {
					failed = true
					rejected++
					break
				}
				tmp.Apply(refs, nil)
				next = max + 1
			}
			if failed || op.Abandon {
				tr.Close() // abandoned: no effect
				o.Class("abandoned-addition")
			} else {
				if err := tr.Commit(); err != nil {
					tr.Close()
					return Failf("C12/commit", "%s: Commit: %v", what, err)
				}
				tr.Close()
				store = tmp
				accepted++
			}
		}
		// the committed state never contains a conflict, and equals the model
		if err := CompareView("C12", what, st, store); err != nil {
			return err
		}
		if check {
			refs, _, _ := ViewOf(st)
			live := map[string]gen.Ref{}
			for _, r := range refs {
				live[string(r.Name)] = r
				if !validName(string(r.Name)) {
					return Failf("C12/invalid-live-name", "%s: live ref with invalid name %q", what, string(r.Name))
				}
			}
			if x, y, ok := conflictFree(live); !ok {
				return Failf("C12/conflict-live", "%s: %q and %q are both live", what, x, y)
			}
		}
	}
	o.Count("rejected", rejected)
	o.Count("accepted", accepted)
	o.ClassIf(!check, "name-check-off")
	o.Nontrivial = nontrivial
	return nil
}

func liveNames(s *Store) []string {
	var out []string
	for _, r := range s.SortedRefs() {
		out = append(out, string(r.Name))
	}
	return out
}

func TestC12(t *testing.T) { Run(t, "C12", genC12, propC12) }
