package checks

import (
	"fmt"
	"os"
	"path/filepath"
	"strings"
	"testing"
	. "verifharness/hist"
	"verifharness/specdec"

	"github.com/google/reftable"
	"pgregory.net/rapid"
	. "verifharness/evid"
	"verifharness/gen"
	"verifharness/model"
)

type c03Case struct {
	Tables    []gen.TableSpec `json:"tables"`
	ExtraKeys []Str           `json:"extra_keys"`
	ExtraIdx  []uint64        `json:"extra_idx"`
}

// DrawStackTables draws 1..maxTables tables with increasing, disjoint limits
// over one shared pool of names (and a shared range of log update indices),
// so that keys recur across tables with fresh kinds, deletions, re-creations.
// StackOpt adjusts DrawStackTables.
type StackOpt struct {
	// Indexed: at least 6 names, 256-byte blocks, half of the tables unaligned, no noisy logs -
	// so that most tables carry a ref index and hence an object index.
	Indexed bool
}

func DrawStackTables(t *rapid.T, maxTables int, hash int, exact bool, hashPoolMax int, opts ...StackOpt) []gen.TableSpec {
	var opt StackOpt
	if len(opts) > 0 {
		opt = opts[0]
	}
	ng := gen.NewNameGen(t)
	npool := rapid.IntRange(2, 12).Draw(t, "npool")
	if opt.Indexed && npool < 6 {
		npool = 6 + npool
	}
	var pool []string
	for i := 0; i < npool; i++ {
		pool = append(pool, ng.Draw(t, 30))
	}
	hs := 20
	if hash == 2 {
		hs = 32
	}
	hp := gen.NewHashPool(t, hs, hashPoolMax)
	k := rapid.IntRange(1, maxTables).Draw(t, "ntables")
	var tabs []gen.TableSpec
	next := uint64(rapid.IntRange(0, 5).Draw(t, "firstMin"))
	if rapid.IntRange(0, 9).Draw(t, "hugeMin") == 0 {
		next = 1 << 40
	}
	for i := 0; i < k; i++ {
		cfg := gen.DrawCfg(t)
		cfg.Hash = hash
		cfg.Exact = exact
		if cfg.BlockSize != 0 && cfg.BlockSize < 200 {
			cfg.BlockSize = 200 // every pooled record fits
		}
		if rapid.Bool().Draw(t, "smallBlocks") || opt.Indexed {
			cfg.BlockSize = 256
		}
		if opt.Indexed {
			cfg.Unaligned = rapid.Bool().Draw(t, "unalignedIdx")
			cfg.SkipIndexObjects = false
		}
		min := next + uint64(rapid.IntRange(0, 2).Draw(t, "gap"))
		max := min + uint64(rapid.IntRange(0, 3).Draw(t, "span"))
		next = max + 1
		spec := gen.TableSpec{Cfg: cfg, Min: min, Max: max}
		for _, n := range pool {
			if rapid.IntRange(0, 2).Draw(t, "inTable") == 0 {
				continue
			}
			r := gen.Ref{Name: Str(n), Idx: min + uint64(rapid.IntRange(0, int(max-min)).Draw(t, "idx"))}
			r.Kind = rapid.SampledFrom([]int{gen.KDel, gen.KDel, gen.KVal, gen.KVal, gen.KPeeled, gen.KSym}).Draw(t, "kind")
			switch r.Kind {
			case gen.KVal:
				r.Val = hp.Draw(t)
			case gen.KPeeled:
				r.Val = hp.Draw(t)
				r.Peeled = hp.Draw(t)
			case gen.KSym:
				r.Target = Str(pool[rapid.IntRange(0, len(pool)-1).Draw(t, "target")])
			}
			spec.Refs = append(spec.Refs, r)
		}
		noisy := rapid.IntRange(0, 4).Draw(t, "noisyLogs") == 2 && !opt.Indexed
		if noisy {
			// one noise record per block: keep the blocks (and the drawn noise) small
			spec.Cfg.BlockSize = uint32(rapid.SampledFrom([]int{256, 320, 400}).Draw(t, "noisyBlock"))
			cfg = spec.Cfg
		}
		for _, n := range pool {
			if rapid.IntRange(0, 2).Draw(t, "logInTable") != 0 {
				continue
			}
			ne := rapid.IntRange(1, 3).Draw(t, "entries")
			for j := 0; j < ne; j++ {
				l := gen.Log{Name: Str(n), Idx: uint64(rapid.IntRange(0, 12).Draw(t, "lidx"))}
				if noisy && len(spec.Refs) > 0 {
					// incompressible records that fill their block to the last few bytes: deflated
					// log blocks longer than the block size (the reader's read-more path)
					if nl, ok := gen.DrawFillingLog(t, n, l.Idx, hs, cfg.EffBlockSize(), exact, rapid.IntRange(0, 14).Draw(t, "fillSlack")); ok {
						spec.Logs = append(spec.Logs, nl)
						continue
					}
				}
				if rapid.IntRange(0, 3).Draw(t, "ldel") == 0 {
					l.Del = true
				} else {
					l.Old, l.New = hp.Draw(t), hp.Draw(t)
					l.Who = Str(rapid.SampledFrom([]string{"", "A U Thor", "c"}).Draw(t, "who"))
					l.Email = Str(rapid.SampledFrom([]string{"", "a@example.com"}).Draw(t, "email"))
					l.Time = uint64(rapid.IntRange(0, 50).Draw(t, "time"))
					l.TZ = int16(rapid.IntRange(-2, 2).Draw(t, "tz") * 60)
					l.Msg = Str(rapid.SampledFrom([]string{"m", "update", "x\n", ""}).Draw(t, "msg"))
					if exact && rapid.IntRange(0, 4).Draw(t, "multi") == 0 {
						l.Msg = "two\nlines"
					}
					if l.Old == nil && l.New == nil && l.Who == "" && l.Email == "" && l.Time == 0 && l.TZ == 0 && l.Msg == "" {
						l.Del = true
					}
				}
				spec.Logs = append(spec.Logs, l)
			}
		}
		spec.Refs = gen.SortRefs(spec.Refs)
		spec.Logs = gen.SortLogs(spec.Logs)
		tabs = append(tabs, spec)
	}
	return tabs
}

func genC03(t *rapid.T) c03Case {
	c := c03Case{}
	c.Tables = DrawStackTables(t, 6, rapid.IntRange(0, 2).Draw(t, "hash"), rapid.Bool().Draw(t, "exact"), 6)
	ng := gen.NewNameGen(t)
	n := rapid.IntRange(0, 4).Draw(t, "nextra")
	for i := 0; i < n; i++ {
		c.ExtraKeys = append(c.ExtraKeys, Str(ng.Draw(t, 30)))
		c.ExtraIdx = append(c.ExtraIdx, uint64(rapid.IntRange(0, 14).Draw(t, "xidx")))
	}
	return c
}

// BuiltStack is a set of written tables, as readers and as a directory.
type BuiltStack struct {
	Data    [][]byte
	Names   []string
	Models  []model.Table
	Dir     string
	HashID  reftable.HashID
	Skipped int // empty tables (not part of the stack)
	// LongLogStreams counts log blocks whose deflated form is longer than the block size
	LongLogStreams int
	HasObjIndex    []bool // per table: it has an object section
}

// BuildTables writes every table; empty ones are left out (a stack never
// contains an empty table).
func BuildTables(tabs []gen.TableSpec) (*BuiltStack, bool, error) {
	bs := &BuiltStack{}
	for i, spec := range tabs {
		if len(spec.Refs)+len(spec.Logs) == 0 {
			bs.Skipped++
			continue
		}
		data, _, rejected, err := WriteTable(spec)
		if rejected {
			return nil, true, nil
		}
		if err != nil {
			return nil, false, fmt.Errorf("table %d: %v", i, err)
		}
		bs.Data = append(bs.Data, data)
		hasObj := false
		for _, b := range specdec.Decode(data, spec.Cfg.HashSize(), !spec.Cfg.Unaligned).Blocks {
			if b.Type == 'g' && b.Occupied > uint64(spec.Cfg.EffBlockSize()) {
				bs.LongLogStreams++
			}
			if b.Type == 'o' {
				hasObj = true
			}
		}
		bs.HasObjIndex = append(bs.HasObjIndex, hasObj)
		bs.Names = append(bs.Names, fmt.Sprintf("0x%012x-0x%012x-%08x.ref", spec.Min, spec.Max, i))
		bs.Models = append(bs.Models, model.Table{Min: spec.Min, Max: spec.Max, Refs: spec.Refs, Logs: NormLogs(spec.Logs, spec.Cfg)})
		bs.HashID = spec.Cfg.HashID()
	}
	if bs.HashID == reftable.NullHashID {
		bs.HashID = reftable.SHA1ID
	}
	return bs, false, nil
}

// Readers opens every table from memory.
func (bs *BuiltStack) Readers() ([]reftable.Table, error) {
	var out []reftable.Table
	for i, d := range bs.Data {
		r, err := reftable.NewReader(&reftable.ByteBlockSource{Source: d}, bs.Names[i])
		if err != nil {
			return nil, fmt.Errorf("NewReader(%s): %v", bs.Names[i], err)
		}
		out = append(out, r)
	}
	return out, nil
}

// WriteDir lays the tables out as a stack directory by hand.
func (bs *BuiltStack) WriteDir() string {
	d := ScratchDir()
	for i, data := range bs.Data {
		if err := os.WriteFile(filepath.Join(d, bs.Names[i]), data, 0644); err != nil {
			panic(err)
		}
	}
	if len(bs.Names) > 0 {
		if err := os.WriteFile(filepath.Join(d, "tables.list"), []byte(strings.Join(bs.Names, "\n")+"\n"), 0644); err != nil {
			panic(err)
		}
	}
	bs.Dir = d
	return d
}

func propC03(c c03Case, o *Obs) error {
	bs, rejected, err := BuildTables(c.Tables)
	if rejected {
		o.Rejected()
		return nil
	}
	if err != nil {
		return Failf("C03/write-error", "%v", err)
	}
	if len(bs.Data) == 0 {
		return nil
	}
	o.ClassIf(bs.LongLogStreams > 0, "log-stream-longer-than-block")
	rawRefs := model.OverlayRefs(bs.Models, false)
	rawLogs := model.OverlayLogs(bs.Models, false)
	cookedRefs := model.OverlayRefs(bs.Models, true)
	cookedLogs := model.OverlayLogs(bs.Models, true)

	// raw view
	tabs, err := bs.Readers()
	if err != nil {
		return Failf("C03/open", "%v", err)
	}
	m, err := reftable.NewMerged(tabs, bs.HashID)
	if err != nil {
		return Failf("C03/newmerged", "NewMerged over %d tables with increasing limits: %v", len(tabs), err)
	}
	got, err := AllRefs(m)
	if err != nil {
		return Failf("C03/raw-scan-error", "%v", err)
	}
	if d := DiffRefs(got, rawRefs); d != "" {
		return Failf("C03/raw-ref-mismatch", "raw merged refs: %s", d)
	}
	gotL, err := AllLogs(m)
	if err != nil {
		return Failf("C03/raw-scan-error", "%v", err)
	}
	if d := DiffLogs(gotL, rawLogs); d != "" {
		return Failf("C03/raw-log-mismatch", "raw merged logs: %s", d)
	}
	if err := CheckSeeks("C03/raw", m, rawRefs, rawLogs, c.ExtraKeys, c.ExtraIdx, o); err != nil {
		return err
	}

	// the stack's view hides deletions
	dir := bs.WriteDir()
	defer os.RemoveAll(dir)
	st, err := reftable.NewStack(dir, reftable.Config{HashID: bs.HashID})
	if err != nil {
		return Failf("C03/newstack", "NewStack on a hand-assembled directory of %d tables: %v", len(bs.Data), err)
	}
	defer st.Close()
	sm := st.Merged()
	got, err = AllRefs(sm)
	if err != nil {
		return Failf("C03/stack-scan-error", "%v", err)
	}
	if d := DiffRefs(got, cookedRefs); d != "" {
		return Failf("C03/stack-ref-mismatch", "stack view refs: %s", d)
	}
	gotL, err = AllLogs(sm)
	if err != nil {
		return Failf("C03/stack-scan-error", "%v", err)
	}
	if d := DiffLogs(gotL, cookedLogs); d != "" {
		return Failf("C03/stack-log-mismatch", "stack view logs: %s", d)
	}
	if err := CheckSeeks("C03/stack", sm, cookedRefs, cookedLogs, c.ExtraKeys, c.ExtraIdx, o); err != nil {
		return err
	}

	// classes
	count := map[string]int{}
	shadowDel := false
	for i, t := range bs.Models {
		for _, r := range t.Refs {
			count["r"+string(r.Name)]++
			if r.Kind == gen.KDel && i > 0 && count["r"+string(r.Name)] > 1 {
				shadowDel = true
			}
		}
		for _, l := range t.Logs {
			count["l"+l.Key()]++
			if l.Del && count["l"+l.Key()] > 1 {
				shadowDel = true
			}
		}
	}
	maxMult := 0
	for _, n := range count {
		if n > maxMult {
			maxMult = n
		}
	}
	o.Class(fmt.Sprintf("tables-%d", len(bs.Data)))
	o.ClassIf(maxMult >= 3, "key-in-3+-tables")
	o.ClassIf(shadowDel, "shadowing-deletion")
	o.ClassIf(bs.HashID == reftable.SHA256ID, "sha256")
	o.Nontrivial = len(bs.Data) >= 2 && maxMult >= 2 && shadowDel
	return nil
}

func TestC03(t *testing.T) { Run(t, "C03", genC03, propC03) }
