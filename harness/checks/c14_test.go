package checks

import (
	"bytes"
	"fmt"
	"os"
	"path/filepath"
	"strings"
	"testing"
	. "verifharness/hist"

	"pgregory.net/rapid"
	. "verifharness/evid"
	"verifharness/gen"
	"verifharness/specdec"
)

type c14Case struct {
	Table   *gen.TableSpec `json:"table,omitempty"`
	History *c07Case       `json:"history,omitempty"`
	Bulk    *gen.Bulk      `json:"bulk,omitempty"`
}

func genC14(t *rapid.T) c14Case {
	if rapid.IntRange(0, 3).Draw(t, "which") == 0 {
		h := genHistory(t, 4, 25, 3)
		return c14Case{History: &h}
	}
	o := gen.TableOpts{MaxRefs: 150, MaxLogs: 40, SmallBlocks: rapid.Bool().Draw(t, "small"),
		HashPoolMax: rapid.SampledFrom([]int{2, 8, 8, 60}).Draw(t, "pool")}
	if rapid.IntRange(0, 9).Draw(t, "hot") == 0 {
		o.Hot, o.HashPoolMax, o.MaxRefs, o.MaxLogs = true, 1, 220, 3
		o.Kinds = []int{gen.KVal, gen.KVal, gen.KVal, gen.KVal, gen.KVal, gen.KVal, gen.KPeeled, gen.KDel}
	}
	if rapid.IntRange(0, 199).Draw(t, "bulk") == 77 {
		tab, b := drawBulk(t)
		return c14Case{Table: &tab, Bulk: b}
	}
	if rapid.IntRange(0, 49).Draw(t, "big") == 23 {
		tab, b := drawBig(t)
		return c14Case{Table: &tab, Bulk: b}
	}
	tab := gen.DrawTable(t, o)
	return c14Case{Table: &tab}
}

func specRef(r specdec.Ref) gen.Ref {
	g := gen.Ref{Name: Str(r.Name), Idx: r.Idx, Kind: r.Kind, Target: Str(r.Target)}
	if r.Val != nil {
		g.Val = Hex(r.Val)
	}
	if r.Peeled != nil {
		g.Peeled = Hex(r.Peeled)
	}
	return g
}

func specLog(l specdec.Log) gen.Log {
	g := gen.Log{Name: Str(l.Name), Idx: l.Idx, Del: l.Del, Who: Str(l.Who), Email: Str(l.Email), Time: l.Time, TZ: l.TZ, Msg: Str(l.Msg)}
	if l.Old != nil {
		g.Old = Hex(l.Old)
	}
	if l.New != nil {
		g.New = Hex(l.New)
	}
	return g
}

// ValidateTable judges table bytes with the independent decoder and compares
// the decoded records with the source records.
func ValidateTable(sig, what string, data []byte, cfg gen.Cfg, wantMin, wantMax uint64, checkLimits bool, refs []gen.Ref, logs []gen.Log, o *Obs) (*specdec.File, error) {
	f := specdec.Decode(data, cfg.HashSize(), !cfg.Unaligned)
	o.Count("programs", 1)
	if len(f.Errors) > 0 {
		return f, Failf(sig+"/malformed", "%s is not a well-formed reftable: %s", what, strings.Join(f.Errors, "; "))
	}
	if checkLimits && (f.Min != wantMin || f.Max != wantMax) {
		return f, Failf(sig+"/limits", "%s: header limits [%d,%d], source [%d,%d]", what, f.Min, f.Max, wantMin, wantMax)
	}
	// an unpadded table may also declare block size 0 ("no alignment"), which the format allows
	if int(f.BlockSize) != cfg.EffBlockSize() && !(cfg.Unaligned && f.BlockSize == 0) {
		return f, Failf(sig+"/blocksize", "%s: header block size %d, configured %d", what, f.BlockSize, cfg.EffBlockSize())
	}
	var gotR []gen.Ref
	for _, r := range f.Refs {
		gotR = append(gotR, specRef(r))
	}
	var gotL []gen.Log
	for _, l := range f.Logs {
		gotL = append(gotL, specLog(l))
	}
	if d := DiffRefs(gotR, refs); d != "" {
		return f, Failf(sig+"/ref-records", "%s decoded by the format rules differs from the source records: %s", what, d)
	}
	if d := DiffLogs(gotL, logs); d != "" {
		return f, Failf(sig+"/log-records", "%s decoded by the format rules differs from the source records: %s", what, d)
	}
	o.Count("compared", 1)
	return f, nil
}

func dropTombstones(refs []gen.Ref) []gen.Ref {
	var out []gen.Ref
	for _, r := range refs {
		if r.Kind != gen.KDel {
			out = append(out, r)
		}
	}
	return out
}

func dropLogTombstones(logs []gen.Log) []gen.Log {
	var out []gen.Log
	for _, l := range logs {
		if !l.Del {
			out = append(out, l)
		}
	}
	return out
}

func propC14(c c14Case, o *Obs) error {
	if c.Table != nil {
		spec := *c.Table
		if c.Bulk != nil {
			spec.Refs = c.Bulk.Expand(spec.Min)
			o.ClassIf(len(c.Bulk.Lens) == 0, "bulk-restart-cap")
			o.ClassIf(len(c.Bulk.Lens) > 0, "big-records-in-big-blocks")
		}
		data, st, rejected, err := WriteTable(spec)
		if rejected {
			o.Rejected()
			return nil
		}
		if err != nil {
			return Failf("C14/write-error", "%v", err)
		}
		ShapeClasses(o, spec, st)
		f, err := ValidateTable("C14/table", "the written table", data, spec.Cfg, spec.Min, spec.Max, true, spec.Refs, NormLogs(spec.Logs, spec.Cfg), o)
		if err != nil {
			return err
		}
		o.ClassIf(f.ObjTruncated > 0, "objindex-truncated-positions")
		o.ClassIf(len(f.Objs) > 0, "objindex-decoded")
		o.Class(fmt.Sprintf("specdec-refidx-levels-%d", f.RefIndexLevels))
		o.Nontrivial = len(f.Blocks) >= 2
		return nil
	}
	files := 0
	multi := 0
	hooks := &histHooks{onTable: func(dir string, ev TrackEvent, cfg gen.Cfg) error {
		data, err := os.ReadFile(filepath.Join(dir, ev.Name))
		if err != nil {
			return nil // already compacted away again within the same step
		}
		files++
		what := fmt.Sprintf("table %s written by Add", ev.Name)
		refs, logs := ev.Expected.Refs, ev.Expected.Logs
		if !ev.IsAdd {
			what = fmt.Sprintf("table %s written by compacting %d tables (first input at position %d)", ev.Name, len(ev.Inputs), ev.First)
		}
		f, verr := ValidateTable("C14/stack", what, data, cfg, ev.Expected.Min, ev.Expected.Max, true, refs, logs, o)
		if verr != nil && !ev.IsAdd && ev.MayDropTombstones {
			// the range started at the oldest table: tombstones may (but need not) be dropped
			var alt *Obs = &Obs{}
			f2, verr2 := ValidateTable("C14/stack", what, data, cfg, ev.Expected.Min, ev.Expected.Max, true, dropTombstones(refs), logs, alt)
			if verr2 != nil {
				f2, verr2 = ValidateTable("C14/stack", what, data, cfg, ev.Expected.Min, ev.Expected.Max, true, dropTombstones(refs), dropLogTombstones(logs), alt)
			}
			if verr2 == nil {
				o.Count("compared", 1)
				f, verr = f2, nil
			}
		}
		if verr != nil {
			return verr
		}
		if f != nil && len(f.Blocks) >= 2 {
			multi++
		}
		return nil
	}}
	if err := runHistory("C14/history", *c.History, o, hooks); err != nil {
		return err
	}
	o.Class("stack-history")
	o.Count("stack_files", files)
	o.Nontrivial = multi > 0
	return nil
}

var _ = bytes.Equal

func TestC14(t *testing.T) { Run(t, "C14", genC14, propC14) }
