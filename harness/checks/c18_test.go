package checks

import (
	"bytes"
	"compress/zlib"
	"encoding/binary"
	"encoding/json"
	"hash/crc32"
	"fmt"
	"math"
	"os"
	"path/filepath"
	"runtime"
	"strings"
	"testing"
	"time"

	"github.com/google/reftable"
	"pgregory.net/rapid"
	. "verifharness/evid"
	"verifharness/gen"
	. "verifharness/hist"
	"verifharness/specdec"
)

type c18Case struct {
	Table  gen.TableSpec `json:"table"`
	Other  gen.TableSpec `json:"other"`
	Muts   []gen.Mut     `json:"muts"`
	FixCRC bool          `json:"fix_crc"`
	// LogMuts are applied to the inflated content of the table's last log block, which
	// is then deflated again and put back (block_len, log index offset and CRC adjusted):
	// the only way damage reaches the log record decoder behind the zlib checksum.
	LogMuts    []gen.Mut `json:"log_muts,omitempty"`
	LogKeepLen bool      `json:"log_keep_len,omitempty"` // leave the old block_len in place
	Raw    Hex           `json:"raw,omitempty"` // used by the native fuzz target: bytes given directly
	// ViaDir: additionally read the damaged table from a file (fileBlockSource), and as a
	// member of a stack directory (NewStack, the stack's merged view, the reads an Add does
	// to validate names, and the reads of a compaction). 1 = damaged table listed first,
	// 2 = listed last.
	ViaDir int `json:"via_dir,omitempty"`
}

func genC18(t *rapid.T) c18Case {
	c := c18Case{}
	o := gen.TableOpts{MaxRefs: 60, MaxLogs: 12, SmallBlocks: true, HashPoolMax: 4}
	c.Table = gen.DrawTable(t, o)
	if c.Table.Cfg.BlockSize > 4096 {
		c.Table.Cfg.BlockSize = 4096
	}
	c.Other = gen.DrawTableWith(t, c.Table.Cfg, c.Table.Max+1, c.Table.Max+3, gen.TableOpts{MaxRefs: 10, MaxLogs: 4, HashPoolMax: 2})
	c.Muts = gen.DrawMuts(t, 4)
	c.FixCRC = rapid.IntRange(0, 5).Draw(t, "fixCRC") != 0
	if v := rapid.IntRange(0, 15).Draw(t, "viaDir"); v <= 2 {
		c.ViaDir = v
	} else if os.Getenv("VERIF_C18_VIADIR") != "" {
		c.ViaDir = 1 + v%2 // development aid: every case takes the directory path
	}
	if len(c.Table.Logs) > 0 && rapid.IntRange(0, 2).Draw(t, "logEdit") == 1 {
		c.LogMuts = gen.DrawMuts(t, 3)
		c.LogKeepLen = rapid.IntRange(0, 3).Draw(t, "logKeepLen") == 3
		if rapid.Bool().Draw(t, "onlyLog") {
			c.Muts = nil
			c.FixCRC = true
		}
	}
	return c
}

// relog rewrites the last log block of a valid table with muts applied to its
// inflated content.
func relog(valid []byte, cfg gen.Cfg, muts []gen.Mut, keepLen bool) ([]byte, bool) {
	return relogWith(valid, cfg, keepLen, func(inner []byte, targets, vt []int) []byte {
		return gen.Apply(inner, nil, targets, muts, false, 0, gen.Redirect{Extra: vt})
	})
}

func relogWith(valid []byte, cfg gen.Cfg, keepLen bool, edit func(inner []byte, targets, vt []int) []byte) ([]byte, bool) {
	f := specdec.Decode(valid, cfg.HashSize(), !cfg.Unaligned)
	var b *specdec.Block
	for i := range f.Blocks {
		if f.Blocks[i].Type == 'g' {
			b = &f.Blocks[i]
		}
	}
	hdr := cfg.HeaderSize()
	ftr := hdr + 44
	if b == nil || len(b.Content) == 0 || len(valid) < hdr+ftr {
		return valid, false
	}
	hoff := 0
	if b.Off == 0 {
		hoff = hdr
	}
	inner := append([]byte{}, b.Content[hoff+4:]...)
	var vt, targets []int
	for _, v := range b.Varints {
		if v >= hoff+4 {
			vt = append(vt, v-hoff-4)
		}
	}
	targets = append(targets, vt...)
	for i := 1; i <= 2+3*minI(b.Restarts, 3) && i <= len(inner); i++ {
		targets = append(targets, len(inner)-i)
	}
	edited := edit(inner, targets, vt)
	var z bytes.Buffer
	zw := zlib.NewWriter(&z)
	zw.Write(edited)
	zw.Close()
	zstart := int(b.Off) + hoff + 4
	zend := int(b.Off) + int(b.Occupied)
	if zstart > zend || zend > len(valid)-ftr {
		return valid, false
	}
	out := append([]byte{}, valid[:zstart]...)
	out = append(out, z.Bytes()...)
	out = append(out, valid[zend:]...)
	if !keepLen {
		n := len(edited) + hoff + 4
		lp := int(b.Off) + hoff + 1
		out[lp], out[lp+1], out[lp+2] = byte(n>>16), byte(n>>8), byte(n)
	}
	delta := z.Len() - (zend - zstart)
	fs := len(out) - ftr
	lip := fs + hdr + 32 // log index offset
	if v := binary.BigEndian.Uint64(out[lip:]); v > b.Off {
		binary.BigEndian.PutUint64(out[lip:], uint64(int64(v)+int64(delta)))
	}
	binary.BigEndian.PutUint32(out[len(out)-4:], crc32.ChecksumIEEE(out[fs:len(out)-4]))
	return out, true
}

// structuralTargets lists the offsets of bytes that steer the decoders.
func structuralTargets(data []byte, cfg gen.Cfg) []int {
	f := specdec.Decode(data, cfg.HashSize(), !cfg.Unaligned)
	hdr := cfg.HeaderSize()
	var t []int
	for i := 4; i < hdr; i++ {
		t = append(t, i) // version, block size, min, max, hash id
	}
	for _, b := range f.Blocks {
		off := int(b.Off)
		if off == 0 {
			off = hdr
		}
		for i := 0; i < 12; i++ {
			t = append(t, off+i) // type, block_len, first record
		}
		for _, e := range b.Objs() {
			if e.CountOff > 0 {
				t = append(t, e.CountOff) // explicit position count of an object record
			}
			if e.PosOff > 0 {
				t = append(t, e.PosOff)
			}
		}
		end := int(b.Off) + int(b.Len)
		if b.Type != 'g' {
			for i := 1; i <= 2+3*minI(b.Restarts, 3); i++ {
				t = append(t, end-i) // restart count and the last restart offsets
			}
		}
	}
	ftr := len(data) - 68
	if hdr == 28 {
		ftr = len(data) - 72
	}
	for i := ftr + hdr; i < len(data)-4 && i >= 0; i++ {
		t = append(t, i) // footer section offsets
	}
	var out []int
	for _, p := range t {
		if p >= 0 && p < len(data) {
			out = append(out, p)
		}
	}
	return out
}

// redirects lists every index-entry and object-record position field together with the
// block offsets that fit in its encoded length (its own block, its siblings, blocks of
// other types): the raw material for cycles and type confusion in the index descent.
func redirects(data []byte, cfg gen.Cfg) []gen.Redirect {
	f := specdec.Decode(data, cfg.HashSize(), !cfg.Unaligned)
	var offs []uint64
	for _, b := range f.Blocks {
		offs = append(offs, b.Off)
	}
	fit := func(n int) []uint64 {
		var out []uint64
		for _, o := range offs {
			if varintBytes(o) == n {
				out = append(out, o)
			}
		}
		return out
	}
	var out []gen.Redirect
	for i := range f.Blocks {
		b := &f.Blocks[i]
		for _, e := range b.Index() {
			out = append(out, gen.Redirect{PosOff: e.PosOff, PosLen: e.PosLen, Targets: fit(e.PosLen)})
		}
		for _, e := range b.Objs() {
			if e.PosLen > 0 {
				r := gen.Redirect{PosOff: e.PosOff, PosLen: e.PosLen, Targets: fit(e.PosLen)}
				if e.CountOff > 0 {
					r.Extra = append(r.Extra, e.CountOff)
				}
				out = append(out, r)
			}
		}
		// every varint field of the first and last records of every uncompressed block
		if b.Type != 'g' {
			var vs []int
			for j, v := range b.Varints {
				if j < 24 || j >= len(b.Varints)-6 {
					vs = append(vs, int(b.Off)+v)
				}
			}
			if len(vs) > 0 {
				out = append(out, gen.Redirect{PosOff: vs[0], PosLen: 0, Extra: vs[1:]})
			}
		}
		if b.Type != 'g' {
			first := int(b.Off) + 4
			if b.Off == 0 {
				first = cfg.HeaderSize() + 4
			}
			out = append(out, gen.Redirect{PosOff: first, PosLen: 0, Extra: []int{first + 1}})
		}
	}
	return out
}

func varintBytes(v uint64) int {
	n := 1
	for v >>= 7; v != 0; v >>= 7 {
		v--
		n++
	}
	return n
}

func minI(a, b int) int {
	if a < b {
		return a
	}
	return b
}

// exercise reads damaged bytes in every way the public API offers.  Errors are
// fine; what it returns is a description of a misbehaviour, or "".
func exercise(data []byte, orig gen.TableSpec, otherData []byte, calls *int, viaDir int) string {
	limit := len(data) + 64
	scan := func(what string, it *reftable.Iterator, logs bool) string {
		for n := 0; ; n++ {
			if n > limit {
				return fmt.Sprintf("%s: iterator returned more than %d records from a %d-byte file (does not terminate)", what, limit, len(data))
			}
			var ok bool
			var err error
			if logs {
				var l reftable.LogRecord
				ok, err = it.NextLog(&l)
			} else {
				var r reftable.RefRecord
				ok, err = it.NextRef(&r)
			}
			if err != nil || !ok {
				return ""
			}
		}
	}
	readAll := func(what string, tab0 reftable.Table) string {
		tab := countingTable{tab0, calls}
		if it, err := tab.SeekRef(""); err == nil {
			if s := scan(what+" ref scan", it, false); s != "" {
				return s
			}
		}
		if it, err := tab.SeekLog("", math.MaxUint64); err == nil {
			if s := scan(what+" log scan", it, true); s != "" {
				return s
			}
		}
		for i, r := range orig.Refs {
			if i%3 == 0 || i < 4 {
				if it, err := tab.SeekRef(string(r.Name)); err == nil {
					if s := scan(what+" SeekRef", it, false); s != "" {
						return s
					}
				}
				if r.Val != nil {
					if it, err := tab.RefsFor(r.Val); err == nil {
						if s := scan(what+" RefsFor", it, false); s != "" {
							return s
						}
					}
				}
			}
		}
		for _, k := range []string{"\x00", "m", "refs/heads/zz", "\xff\xff"} {
			if it, err := tab.SeekRef(k); err == nil {
				if s := scan(what+" SeekRef", it, false); s != "" {
					return s
				}
			}
			if it, err := tab.SeekLog(k, 7); err == nil {
				if s := scan(what+" SeekLog", it, true); s != "" {
					return s
				}
			}
		}
		for i, l := range orig.Logs {
			if i%2 == 0 {
				if it, err := tab.SeekLog(string(l.Name), l.Idx); err == nil {
					if s := scan(what+" SeekLog", it, true); s != "" {
						return s
					}
				}
			}
		}
		hs := orig.Cfg.HashSize()
		for _, oid := range [][]byte{make([]byte, hs), bytesOf(0xff, hs)} {
			if it, err := tab.RefsFor(oid); err == nil {
				if s := scan(what+" RefsFor", it, false); s != "" {
					return s
				}
			}
		}
		return ""
	}
	rd, err := reftable.NewReader(&reftable.ByteBlockSource{Source: data}, "damaged")
	if err != nil {
		return ""
	}
	if s := readAll("reader", rd); s != "" {
		return s
	}
	if m, err := reftable.NewMerged([]reftable.Table{rd}, rd.HashID()); err == nil {
		if s := readAll("merged(1)", m); s != "" {
			return s
		}
	}
	if len(otherData) > 0 {
		if rd2, err := reftable.NewReader(&reftable.ByteBlockSource{Source: otherData}, "valid"); err == nil {
			for _, order := range [][]reftable.Table{{rd, rd2}, {rd2, rd}} {
				if m, err := reftable.NewMerged(order, rd2.HashID()); err == nil {
					if s := readAll("merged(2)", m); s != "" {
						return s
					}
				}
			}
		}
	}
	if viaDir != 0 {
		return exerciseDir(data, orig, otherData, viaDir, readAll, calls)
	}
	return ""
}

// exerciseDir reads the damaged bytes through the file-backed block source and as a
// table of a stack directory: NewStack, the stack's view, the reads Add performs to
// validate a transaction, and the reads of a compaction.  Errors are fine.
// dirStats: what the last exerciseDir call reached (one case runs at a time).
var dirStats struct{ fileOpened, stackOpened, addOK, compactOK bool }

func exerciseDir(data []byte, orig gen.TableSpec, otherData []byte, viaDir int, readAll func(string, reftable.Table) string, calls *int) string {
	dirStats.fileOpened, dirStats.stackOpened, dirStats.addOK, dirStats.compactOK = false, false, false, false
	dir := ScratchDir()
	defer os.RemoveAll(dir)
	dn := fmt.Sprintf("0x%012x-0x%012x-0000dddd.ref", orig.Min, orig.Max)
	if err := os.WriteFile(filepath.Join(dir, dn), data, 0644); err != nil {
		panic(err)
	}
	if src, err := reftable.NewFileBlockSource(filepath.Join(dir, dn)); err == nil {
		if rd, err := reftable.NewReader(src, dn); err == nil {
			dirStats.fileOpened = true
			if s := readAll("file reader", rd); s != "" {
				return s
			}
			rd.Close()
		} else {
			src.Close()
		}
	}
	names := []string{dn}
	if len(otherData) > 0 {
		// the valid companion table: below (its limits moved is not possible, so it is
		// only listed below when the damaged one is "last") or above the damaged one
		on := fmt.Sprintf("0x%012x-0x%012x-0000eeee.ref", orig.Max+1, orig.Max+3)
		if err := os.WriteFile(filepath.Join(dir, on), otherData, 0644); err != nil {
			panic(err)
		}
		if viaDir == 1 {
			names = []string{dn, on}
		} else {
			names = []string{on, dn} // deliberately out of order as well: NewStack must refuse or cope
		}
	}
	if err := os.WriteFile(filepath.Join(dir, "tables.list"), []byte(strings.Join(names, "\n")+"\n"), 0644); err != nil {
		panic(err)
	}
	cfg := orig.Cfg.Config()
	st, err := reftable.NewStack(dir, cfg)
	if err != nil {
		return ""
	}
	defer st.Close()
	dirStats.stackOpened = true
	st.VerifSetAutoCompact(false)
	if s := readAll("stack view", st.Merged()); s != "" {
		return s
	}
	hs := orig.Cfg.HashSize()
	// Add and CompactAll read through the damaged table many times (every block once or
	// more); for the allocation bound they count as that many read calls
	*calls += 2 * (len(data)/64 + 8)
	// the reads behind Add: name validation against the (damaged) view
	dirStats.addOK = nil == st.Add(func(w *reftable.Writer) error {
		ui := st.NextUpdateIndex()
		w.SetLimits(ui, ui)
		name := "refs/heads/zz/added"
		if len(orig.Refs) > 0 {
			name = string(orig.Refs[len(orig.Refs)/2].Name) + "/x"
		}
		return w.AddRef(&reftable.RefRecord{RefName: name, UpdateIndex: ui, Value: bytesOf(7, hs)})
	})
	if s := readAll("stack view after Add", st.Merged()); s != "" {
		return s
	}
	// the reads of a compaction
	dirStats.compactOK = st.CompactAll(nil) == nil
	if s := readAll("stack view after CompactAll", st.Merged()); s != "" {
		return s
	}
	return ""
}

func bytesOf(b byte, n int) []byte {
	out := make([]byte, n)
	for i := range out {
		out[i] = b
	}
	return out
}

const allocLimit = 64 << 20

// slowCases counts cases that needed more than 60 s but finished (starvation, not a hang).
var slowCases int

// checkDamaged runs exercise under a watchdog and an allocation meter.
func checkDamaged(data []byte, orig gen.TableSpec, other []byte, viaDir int) error {
	var before, after runtime.MemStats
	runtime.ReadMemStats(&before)
	type res struct {
		msg   string
		panic interface{}
		stack string
	}
	done := make(chan res, 1)
	calls := 0
	go func() {
		var r res
		defer func() {
			if p := recover(); p != nil {
				buf := make([]byte, 6000)
				r.panic, r.stack = p, string(buf[:runtime.Stack(buf, false)])
			}
			done <- r
		}()
		r.msg = exercise(data, orig, other, &calls, viaDir)
	}()
	var r res
	select {
	case r = <-done:
	case <-time.After(60 * time.Second):
		// A case normally takes milliseconds.  Before calling it a hang, rule out an overloaded
		// machine (a thorough run shares it with 15 other shards and whatever else is going
		// on): wait four more minutes for the same goroutine.  An endless loop or a deadlock
		// is still there after that; a case that was merely starved finishes and is counted.
		select {
		case r = <-done:
			slowCases++
		case <-time.After(240 * time.Second):
			return Failf("C18/hang", "reading a %d-byte damaged table did not return within 300 s", len(data))
		}
	}
	if r.panic != nil {
		return &Violation{Sig: "C18/panic", Msg: fmt.Sprintf("reading damaged bytes panicked: %v\n%s", r.panic, trimStack(r.stack))}
	}
	if r.msg != "" {
		return Failf("C18/no-termination", "%s", r.msg)
	}
	runtime.ReadMemStats(&after)
	// A block length is a 24-bit field, so one block read may legitimately ask
	// for up to 16 MiB; anything beyond 64 MiB plus that per call is unbounded.
	if d := after.TotalAlloc - before.TotalAlloc; d > allocLimit+uint64(calls+1)*(17<<20) {
		return Failf("C18/allocation", "%d read calls on a %d-byte damaged table allocated %d MiB in total", calls, len(data), d>>20)
	}
	return nil
}

func trimStack(s string) string {
	if len(s) > 2500 {
		return s[:2500]
	}
	return s
}

func propC18(c c18Case, o *Obs) error {
	var data, other []byte
	if c.Raw != nil {
		data = c.Raw
		o.Class("raw-bytes")
	} else {
		valid, _, rejected, err := WriteTable(c.Table)
		if rejected || err != nil {
			o.Rejected()
			return nil
		}
		other, _, _, _ = WriteTable(c.Other)
		if len(c.LogMuts) > 0 {
			var did bool
			if valid, did = relog(valid, c.Table.Cfg, c.LogMuts, c.LogKeepLen); did {
				o.Class("log-block-recompressed")
			}
		}
		targets := structuralTargets(valid, c.Table.Cfg)
		data = gen.Apply(valid, other, targets, c.Muts, c.FixCRC, c.Table.Cfg.HeaderSize(), redirects(valid, c.Table.Cfg)...)
	}
	if p := os.Getenv("VERIF_CURCASE"); p != "" {
		b, _ := json.Marshal(map[string]interface{}{"case": c})
		os.WriteFile(p, b, 0644)
	}
	if err := checkDamaged(data, c.Table, other, c.ViaDir); err != nil {
		return err
	}
	// non-trivial: the damaged file still opens (passed the footer checks), so block decoders ran
	if _, err := reftable.NewReader(&reftable.ByteBlockSource{Source: data}, "x"); err == nil {
		o.Nontrivial = true
		o.Class("opens")
	} else {
		o.Class("rejected-at-open")
	}
	if slowCases > 0 {
		o.Count("cases_that_took_over_60s_but_finished", slowCases)
		slowCases = 0
	}
	for _, m := range c.Muts {
		o.Class(fmt.Sprintf("mut-kind-%d", m.Kind))
	}
	for _, m := range c.LogMuts {
		o.Class(fmt.Sprintf("log-mut-kind-%d", m.Kind))
	}
	if c.ViaDir != 0 {
		o.Class("also-read-from-file-and-as-stack-member")
		o.ClassIf(dirStats.stackOpened, "stack-with-damaged-member-opens")
		o.ClassIf(dirStats.addOK, "stack-with-damaged-member-accepts-Add")
		o.ClassIf(dirStats.compactOK, "stack-with-damaged-member-compacts")
	}
	return nil
}

func TestC18(t *testing.T) { Run(t, "C18", genC18, propC18) }

// countingTable counts the read calls issued (for the allocation bound).
type countingTable struct {
	t reftable.Table
	n *int
}

func (c countingTable) SeekRef(n string) (*reftable.Iterator, error) { *c.n++; return c.t.SeekRef(n) }
func (c countingTable) SeekLog(n string, i uint64) (*reftable.Iterator, error) {
	*c.n++
	return c.t.SeekLog(n, i)
}
func (c countingTable) RefsFor(o []byte) (*reftable.Iterator, error) { *c.n++; return c.t.RefsFor(o) }

// ---- native coverage-guided fuzzing (thorough tier only)

func fuzzSeedTables() []gen.TableSpec {
	var out []gen.TableSpec
	h := func(b byte, n int) Hex { return Hex(bytesOf(b, n)) }
	for _, cfg := range []gen.Cfg{{BlockSize: 64, Hash: 1, Exact: true}, {BlockSize: 128, Hash: 2, Unaligned: true}, {BlockSize: 256, Hash: 1}, {BlockSize: 96, Hash: 1, Unaligned: true, RestartInterval: 2}} {
		hs := cfg.HashSize()
		spec := gen.TableSpec{Cfg: cfg, Min: 3, Max: 9}
		for i := 0; i < 24; i++ {
			r := gen.Ref{Name: Str(fmt.Sprintf("refs/heads/b%02d", i)), Idx: 3 + uint64(i%7), Kind: []int{gen.KVal, gen.KPeeled, gen.KSym, gen.KDel}[i%4]}
			switch r.Kind {
			case gen.KVal:
				r.Val = h(byte(i%3+1), hs)
			case gen.KPeeled:
				r.Val, r.Peeled = h(byte(i%3+1), hs), h(9, hs)
			case gen.KSym:
				r.Target = "refs/heads/b00"
			}
			if cfg.BlockSize == 64 && r.Kind != gen.KSym && r.Kind != gen.KDel {
				r.Kind, r.Val, r.Peeled, r.Target = gen.KSym, nil, nil, "HEAD"
			}
			spec.Refs = append(spec.Refs, r)
		}
		if cfg.BlockSize >= 128 {
			for i := 0; i < 8; i++ {
				spec.Logs = append(spec.Logs, gen.Log{Name: Str(fmt.Sprintf("refs/heads/b%02d", i)), Idx: 5, New: h(1, hs), Who: "w", Email: "e", Time: 11, Msg: "m\n"})
			}
			spec.Logs = append(spec.Logs, gen.Log{Name: "refs/heads/b09", Idx: 4, Del: true})
		}
		spec.Refs = gen.SortRefs(spec.Refs)
		spec.Logs = gen.SortLogs(spec.Logs)
		out = append(out, spec)
	}
	return out
}

func FuzzReader(f *testing.F) {
	seeds := fuzzSeedTables()
	for _, spec := range seeds {
		data, _, rejected, err := WriteTable(spec)
		if rejected || err != nil {
			continue
		}
		f.Add(data)
		// hostile variants: structural fields overwritten, footer repaired
		targets := structuralTargets(data, spec.Cfg)
		for i, v := range []byte{0xff, 0, 0x80, 'i', 'g'} {
			m := []gen.Mut{{Kind: 3, Pos: i * 7, Val: uint64(v)}, {Kind: 6, Pos: i*13 + 5, Val: 0xffffff, Len: 3}}
			f.Add(gen.Apply(data, nil, targets, m, true, spec.Cfg.HeaderSize()))
		}
		f.Add(data[:len(data)/2])
	}
	f.Add([]byte("REFT\x01"))
	orig := seeds[2]
	// Inputs starting with 'L' (never a table: the magic is REFT) are taken as the inflated
	// content of a log block and wrapped into an otherwise valid table, so that coverage
	// guidance reaches the log record decoder, which sits behind the zlib checksum.
	base, _, _, _ := WriteTable(orig)
	wrap := func(inner []byte) []byte {
		d, _ := relogWith(base, orig.Cfg, false, func([]byte, []int, []int) []byte { return inner })
		return d
	}
	relogWith(base, orig.Cfg, false, func(inner []byte, _, _ []int) []byte {
		f.Add(append([]byte{'L'}, inner...))
		return inner
	})
	f.Fuzz(func(t *testing.T, data []byte) {
		if len(data) > 1<<16 {
			return
		}
		if len(data) > 0 && data[0] == 'L' {
			data = wrap(data[1:])
		}
		if err := checkDamaged(data, orig, nil, viaDirOf(data)); err != nil {
			if dir := os.Getenv("VERIF_FUZZ_OUT"); dir != "" {
				b, _ := json.Marshal(map[string]interface{}{"property": "C18", "sig": err.(*Violation).Sig, "msg": err.Error(),
					"case": c18Case{Table: orig, Raw: Hex(data)}})
				os.WriteFile(fmt.Sprintf("%s/fuzz-%06d-%x.json", dir, len(data), fnv32(data)), b, 0644)
			}
			t.Fatalf("C18 violated: %v", err)
		}
	})
}

// viaDirOf derives the directory variant of a fuzz input from its content (1 in 8 each).
func viaDirOf(b []byte) int {
	if v := int(fnv32(b) % 16); v <= 2 {
		return v
	}
	return 0
}

func fnv32(b []byte) uint32 {
	h := uint32(2166136261)
	for _, c := range b {
		h = (h ^ uint32(c)) * 16777619
	}
	return h
}
