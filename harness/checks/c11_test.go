package checks

import (
	"bytes"
	"fmt"
	"os"
	"testing"
	. "verifharness/hist"

	"github.com/google/reftable"
	"pgregory.net/rapid"
	. "verifharness/evid"
	"verifharness/gen"
	"verifharness/model"
)

type c11Case struct {
	// Single: one table; otherwise a stack.
	Single  bool            `json:"single"`
	Hot     bool            `json:"hot,omitempty"`
	Tables  []gen.TableSpec `json:"tables"`
	Queries []Hex           `json:"queries"` // extra ids (absent, or sharing a prefix)
}

func genC11(t *rapid.T) c11Case {
	c := c11Case{}
	c.Single = rapid.IntRange(0, 2).Draw(t, "single") != 0
	if c.Single {
		o := gen.TableOpts{MaxRefs: 200, MaxLogs: 3, SmallBlocks: true,
			Kinds:       []int{gen.KDel, gen.KVal, gen.KVal, gen.KVal, gen.KPeeled, gen.KPeeled, gen.KSym},
			HashPoolMax: rapid.SampledFrom([]int{1, 2, 4, 8, 30, 200}).Draw(t, "poolMax")}
		if rapid.IntRange(0, 5).Draw(t, "hot") == 0 {
			o.Hot = true
			o.HashPoolMax = 1
			o.Kinds = []int{gen.KVal, gen.KVal, gen.KVal, gen.KVal, gen.KVal, gen.KVal, gen.KPeeled, gen.KDel}
			o.MaxRefs = 220
		}
		c.Hot = o.Hot
		c.Tables = []gen.TableSpec{gen.DrawTable(t, o)}
	} else {
		// half of the stacks: small blocks and enough names that most tables have an object
		// index - a table that can say "nothing here for this id" while an older one has a match
		c.Tables = DrawStackTables(t, 5, rapid.IntRange(0, 2).Draw(t, "hash"), true, rapid.SampledFrom([]int{1, 2, 4}).Draw(t, "poolMax"),
			StackOpt{Indexed: rapid.Bool().Draw(t, "indexedStack")})
	}
	hs := c.Tables[0].Cfg.HashSize()
	n := rapid.IntRange(0, 4).Draw(t, "nq")
	for i := 0; i < n; i++ {
		c.Queries = append(c.Queries, rapid.SliceOfN(rapid.Byte(), hs, hs).Draw(t, "q"))
	}
	return c
}

func queryIDs(tabs []gen.TableSpec, extra []Hex) [][]byte {
	seen := map[string]bool{}
	var out [][]byte
	add := func(h []byte) {
		if h == nil || seen[string(h)] {
			return
		}
		seen[string(h)] = true
		out = append(out, h)
	}
	for _, t := range tabs {
		for _, r := range t.Refs {
			add(r.Val)
			add(r.Peeled)
		}
		for _, l := range t.Logs {
			add(l.New) // ids that only occur in logs: no ref points at them
		}
	}
	stored := append([][]byte{}, out...)
	// near misses: same prefix of every length class, different tail
	for i, h := range stored {
		if i > 24 {
			break
		}
		for _, cut := range []int{1, 2, 4, len(h) - 1} {
			m := append([]byte{}, h...)
			for j := cut; j < len(m); j++ {
				m[j] ^= 0x5a
			}
			add(m)
		}
		m := append([]byte{}, h...)
		m[len(m)-1]++
		add(m)
	}
	hs := 20
	if len(tabs) > 0 {
		hs = tabs[0].Cfg.HashSize()
	}
	add(make([]byte, hs))
	add(bytes.Repeat([]byte{0xff}, hs))
	for _, q := range extra {
		add(q)
	}
	return out
}

func checkRefsFor(sig string, tab reftable.Table, view []gen.Ref, ids [][]byte, o *Obs) (hits int, err error) {
	for _, oid := range ids {
		want := model.RefsFor(view, oid)
		it, e := tab.RefsFor(oid)
		if e != nil {
			return hits, Failf(sig+"/error", "RefsFor(%x): %v", oid, e)
		}
		got, e := ScanRefs(it)
		if e != nil {
			return hits, Failf(sig+"/iter-error", "RefsFor(%x) iteration: %v", oid, e)
		}
		if d := DiffRefs(got, want); d != "" {
			return hits, Failf(sig+"/mismatch", "RefsFor(%x): %s", oid, d)
		}
		// same fields as SeekRef of that name
		for _, g := range got {
			rec, e := reftable.ReadRef(tab, string(g.Name))
			if e != nil || rec == nil || !gen.RefOf(rec).Equal(g) {
				return hits, Failf(sig+"/differs-from-seek", "RefsFor(%x) returned %v but ReadRef gives %v (%v)", oid, g, rec, e)
			}
		}
		if len(want) > 0 {
			hits++
		}
	}
	o.Count("refsfor_queries", len(ids))
	o.Count("refsfor_queries_with_hits", hits)
	return hits, nil
}

func propC11(c c11Case, o *Obs) error {
	ids := queryIDs(c.Tables, c.Queries)
	if c.Single {
		spec := c.Tables[0]
		data, st, rejected, err := WriteTable(spec)
		if rejected {
			o.Rejected()
			return nil
		}
		if err != nil {
			return Failf("C11/write-error", "%v", err)
		}
		ShapeClasses(o, spec, st)
		rd, err := reftable.NewReader(&reftable.ByteBlockSource{Source: data}, "t")
		if err != nil {
			return Failf("C11/open", "%v", err)
		}
		hits, err := checkRefsFor("C11/table", rd, spec.Refs, ids, o)
		if err != nil {
			return err
		}
		o.ClassIf(spec.Min > 0, "min>0")
		o.ClassIf(c.Hot && st.ObjStats.Blocks > 0, "hot-id-in-many-blocks")
		o.Nontrivial = st.ObjStats.Blocks > 0 && hits > 0
		return nil
	}

	bs, rejected, err := BuildTables(c.Tables)
	if rejected {
		o.Rejected()
		return nil
	}
	if err != nil {
		return Failf("C11/write-error", "%v", err)
	}
	if len(bs.Data) == 0 {
		return nil
	}
	tabs, err := bs.Readers()
	if err != nil {
		return Failf("C11/open", "%v", err)
	}
	m, err := reftable.NewMerged(tabs, bs.HashID)
	if err != nil {
		return Failf("C11/newmerged", "%v", err)
	}
	raw := model.OverlayRefs(bs.Models, false)
	hits, err := checkRefsFor("C11/merged", m, raw, ids, o)
	if err != nil {
		return err
	}
	dir := bs.WriteDir()
	defer os.RemoveAll(dir)
	st, err := reftable.NewStack(dir, reftable.Config{HashID: bs.HashID})
	if err != nil {
		return Failf("C11/newstack", "%v", err)
	}
	defer st.Close()
	cooked := model.OverlayRefs(bs.Models, true)
	if _, err := checkRefsFor("C11/stack", st.Merged(), cooked, ids, o); err != nil {
		return err
	}
	// shadowed hit: an older table has a ref pointing at an id, a newer one deletes or re-points it
	shadowed, underIndexed := false, false
	for _, oid := range ids {
		live := map[string]bool{}
		for _, r := range model.RefsFor(raw, oid) {
			live[string(r.Name)] = true
		}
		for ti, t := range bs.Models {
			for _, r := range model.RefsFor(t.Refs, oid) {
				if !live[string(r.Name)] {
					shadowed = true
					// is it shadowed by a table that has an object index and no ref at oid at all?
					for tj := ti + 1; tj < len(bs.Models); tj++ {
						if bs.HasObjIndex[tj] && len(model.RefsFor(bs.Models[tj].Refs, oid)) == 0 {
							for _, r2 := range bs.Models[tj].Refs {
								if r2.Name == r.Name {
									underIndexed = true
								}
							}
						}
					}
				}
			}
		}
	}
	o.ClassIf(underIndexed, "stack-hit-shadowed-by-indexed-table-without-the-id")
	o.Class(fmt.Sprintf("stack-tables-%d", len(bs.Data)))
	o.ClassIf(shadowed, "stack-shadowed-hit")
	o.Nontrivial = shadowed && hits > 0
	return nil
}

func TestC11(t *testing.T) { Run(t, "C11", genC11, propC11) }
