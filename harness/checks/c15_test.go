package checks

import (
	"bytes"
	"encoding/hex"
	"fmt"
	"math"
	"os"
	"os/exec"
	"path/filepath"
	"sort"
	"strings"
	"testing"

	"github.com/google/reftable"
	"pgregory.net/rapid"
	. "verifharness/evid"
	"verifharness/gen"
	. "verifharness/hist"
)

type c15Case struct {
	Table   *gen.TableSpec `json:"table,omitempty"`
	History *c07Case       `json:"history,omitempty"`
	// CWrites: the C implementation writes and Go reads (otherwise Go writes, C reads)
	CWrites bool `json:"c_writes"`
}

func noNUL(s Str) Str { return Str(strings.ReplaceAll(string(s), "\x00", "N")) }

func cleanTable(spec *gen.TableSpec) {
	for i := range spec.Refs {
		spec.Refs[i].Target = noNUL(spec.Refs[i].Target)
	}
	for i := range spec.Logs {
		l := &spec.Logs[i]
		l.Who, l.Email, l.Msg = noNUL(l.Who), noNUL(l.Email), noNUL(l.Msg)
	}
}

func genC15(t *rapid.T) c15Case {
	c := c15Case{CWrites: rapid.Bool().Draw(t, "cWrites")}
	if rapid.IntRange(0, 4).Draw(t, "which") == 0 {
		h := genHistory(t, 3, 14, 3)
		if c.CWrites {
			h.Auto = true // the C stack always auto-compacts after an addition
			var ops []c07Op
			for _, op := range h.Ops {
				if op.Kind == opAdd || op.Kind == opCompactAll || op.Kind == opAutoCompact {
					ops = append(ops, op)
				}
			}
			h.Ops = ops
		}
		for i := range h.Ops {
			if tx := h.Ops[i].Tx; tx != nil {
				for j := range tx.Logs {
					tx.Logs[j].Who, tx.Logs[j].Email, tx.Logs[j].Msg = noNUL(tx.Logs[j].Who), noNUL(tx.Logs[j].Email), noNUL(tx.Logs[j].Msg)
				}
			}
		}
		c.History = &h
		return c
	}
	o := gen.TableOpts{MaxRefs: 120, MaxLogs: 30, SmallBlocks: rapid.Bool().Draw(t, "small"),
		HashPoolMax: rapid.SampledFrom([]int{2, 8, 40}).Draw(t, "pool")}
	if rapid.IntRange(0, 7).Draw(t, "hot") == 0 {
		o.Hot, o.HashPoolMax, o.MaxRefs, o.MaxLogs = true, 1, 220, 3
		o.Kinds = []int{gen.KVal, gen.KVal, gen.KVal, gen.KVal, gen.KVal, gen.KVal, gen.KPeeled, gen.KDel}
	}
	tab := gen.DrawTable(t, o)
	cleanTable(&tab)
	c.Table = &tab
	return c
}

// ---- canonical text, shared with c/cdriver.c

func hx(b []byte) string {
	if len(b) == 0 {
		return "-"
	}
	return hex.EncodeToString(b)
}

func dumpRef(r gen.Ref) string {
	v, p, t := "-", "-", "-"
	switch r.Kind {
	case gen.KVal:
		v = hx(r.Val)
	case gen.KPeeled:
		v, p = hx(r.Val), hx(r.Peeled)
	case gen.KSym:
		t = hx([]byte(r.Target))
	}
	return fmt.Sprintf("ref %s %d %d %s %s %s", hx([]byte(r.Name)), r.Idx, r.Kind, v, p, t)
}

// dumpLog prints a normalised log record (hashes present).
func dumpLog(l gen.Log) string {
	if l.Del {
		return fmt.Sprintf("log %s %d del", hx([]byte(l.Name)), l.Idx)
	}
	return fmt.Sprintf("log %s %d upd %s %s %s %s %d %d %s", hx([]byte(l.Name)), l.Idx, hx(l.Old), hx(l.New),
		hx([]byte(l.Who)), hx([]byte(l.Email)), l.Time, l.TZ, hx([]byte(l.Msg)))
}

// inputLog prints a log record as input for the C writer (absent hashes stay absent).
func inputLog(l gen.Log) string {
	if l.Del {
		return fmt.Sprintf("log %s %d del", hx([]byte(l.Name)), l.Idx)
	}
	old, nw := "-", "-"
	if l.Old != nil {
		old = hex.EncodeToString(l.Old)
	}
	if l.New != nil {
		nw = hex.EncodeToString(l.New)
	}
	return fmt.Sprintf("log %s %d upd %s %s %s %s %d %d %s", hx([]byte(l.Name)), l.Idx, old, nw,
		hx([]byte(l.Who)), hx([]byte(l.Email)), l.Time, l.TZ, hx([]byte(l.Msg)))
}

func cfgLine(c gen.Cfg) string {
	b := func(v bool) int {
		if v {
			return 1
		}
		return 0
	}
	h := 1
	if c.Hash == 2 {
		h = 2
	}
	return fmt.Sprintf("cfg %d %d %d %d %d %d", c.BlockSize, c.RestartInterval, b(c.Unaligned), b(c.SkipIndexObjects), h, b(c.Exact))
}

func runC(args ...string) (string, error) {
	bin := os.Getenv("VERIF_CDRIVER")
	if bin == "" {
		return "", fmt.Errorf("VERIF_CDRIVER not set")
	}
	cmd := exec.Command(bin, args...)
	cmd.Env = append(os.Environ(), "ASAN_OPTIONS=detect_leaks=0:abort_on_error=0", "UBSAN_OPTIONS=halt_on_error=1:print_stacktrace=1")
	var out, errb bytes.Buffer
	cmd.Stdout, cmd.Stderr = &out, &errb
	err := cmd.Run()
	if err != nil {
		return out.String(), fmt.Errorf("%v\nstderr:\n%s", err, tail(errb.String(), 3000))
	}
	if strings.Contains(errb.String(), "runtime error:") {
		return out.String(), fmt.Errorf("undefined behaviour reported:\n%s", tail(errb.String(), 3000))
	}
	return out.String(), nil
}

func tail(s string, n int) string {
	if len(s) > n {
		return s[len(s)-n:]
	}
	return s
}

// queries and the expected answers of the C reader for one table / view.
type qset struct {
	lines  []string
	expect []string
}

func (q *qset) addRefSeek(refs []gen.Ref, key string, scan bool) {
	pos := sort.Search(len(refs), func(j int) bool { return string(refs[j].Name) >= key })
	var sb strings.Builder
	line := "seekref " + hx([]byte(key))
	limit := 3
	if scan {
		line = "scanrefs"
		limit = len(refs)
	}
	sb.WriteString("# " + line + "\n")
	for i, r := range refs[pos:] {
		if i < limit {
			sb.WriteString(dumpRef(r) + "\n")
		}
	}
	sb.WriteString(fmt.Sprintf("count %d\n", len(refs)-pos))
	q.lines = append(q.lines, line)
	q.expect = append(q.expect, sb.String())
}

func (q *qset) addLogSeek(logs []gen.Log, name string, idx uint64, scan bool) {
	key := gen.LogKey(name, idx)
	pos := sort.Search(len(logs), func(j int) bool { return logs[j].Key() >= key })
	line := fmt.Sprintf("seeklog %s %d", hx([]byte(name)), idx)
	limit := 3
	if scan {
		line, pos, limit = "scanlogs", 0, len(logs)
	}
	var sb strings.Builder
	sb.WriteString("# " + line + "\n")
	for i, l := range logs[pos:] {
		if i < limit {
			sb.WriteString(dumpLog(l) + "\n")
		}
	}
	sb.WriteString(fmt.Sprintf("count %d\n", len(logs)-pos))
	q.lines = append(q.lines, line)
	q.expect = append(q.expect, sb.String())
}

func (q *qset) addRefsFor(refs []gen.Ref, oid []byte) {
	line := "refsfor " + hex.EncodeToString(oid)
	var sb strings.Builder
	sb.WriteString("# " + line + "\n")
	n := 0
	for _, r := range refs {
		if r.PointsAt(oid) {
			sb.WriteString(dumpRef(r) + "\n")
			n++
		}
	}
	sb.WriteString(fmt.Sprintf("count %d\n", n))
	q.lines = append(q.lines, line)
	q.expect = append(q.expect, sb.String())
}

func buildQueries(refs []gen.Ref, logs []gen.Log, withRefsFor bool, hs int) *qset {
	q := &qset{}
	q.addRefSeek(refs, "", true)
	q.addLogSeek(logs, "", 0, true)
	for i, r := range refs {
		if i%5 == 0 || i < 3 || i == len(refs)-1 {
			for _, k := range neighbours(string(r.Name)) {
				if !strings.Contains(k, "\x00") && k != "" {
					q.addRefSeek(refs, k, false)
				}
			}
		}
	}
	q.addRefSeek(refs, "\x01", false)
	q.addRefSeek(refs, "\xff\xff\xff", false)
	for i, l := range logs {
		if i%3 == 0 || i < 3 {
			for _, u := range []uint64{l.Idx, l.Idx + 1, l.Idx - 1, 0, math.MaxUint64} {
				q.addLogSeek(logs, string(l.Name), u, false)
			}
		}
	}
	q.addLogSeek(logs, "zzzz", 5, false)
	if withRefsFor {
		seen := map[string]bool{}
		for _, r := range refs {
			for _, h := range [][]byte{r.Val, r.Peeled} {
				if h != nil && !seen[string(h)] && len(seen) < 24 {
					seen[string(h)] = true
					q.addRefsFor(refs, h)
					m := append([]byte{}, h...)
					m[len(m)-1] ^= 0x55
					if !seen[string(m)] {
						q.addRefsFor(refs, m)
					}
				}
			}
		}
		q.addRefsFor(refs, make([]byte, hs))
	}
	return q
}

// compareSections compares the C output with the expected text, query by query.
func compareSections(sig, got string, q *qset, skipHeader int) error {
	parts := strings.Split(got, "# ")
	if len(parts)-1 != len(q.lines) {
		return Failf(sig+"/c-output", "C driver answered %d of %d queries; output starts: %q", len(parts)-1, len(q.lines), tail(got, 600))
	}
	for i, p := range parts[1:] {
		if "# "+p != q.expect[i] {
			return Failf(sig+"/mismatch", "query %q: the C implementation returned\n%s\nexpected\n%s", q.lines[i], trunc("# "+p, 1500), trunc(q.expect[i], 1500))
		}
	}
	return nil
}

func trunc(s string, n int) string {
	if len(s) > n {
		return s[:n] + "..."
	}
	return s
}

func tableSpecText(spec gen.TableSpec) string {
	var sb strings.Builder
	sb.WriteString(cfgLine(spec.Cfg) + "\n")
	sb.WriteString(fmt.Sprintf("limits %d %d\n", spec.Min, spec.Max))
	for _, r := range spec.Refs {
		sb.WriteString(dumpRef(r) + "\n")
	}
	for _, l := range spec.Logs {
		sb.WriteString(inputLog(l) + "\n")
	}
	return sb.String()
}

func propC15(c c15Case, o *Obs) error {
	dir := ScratchDir()
	defer os.RemoveAll(dir)
	if c.Table != nil {
		spec := *c.Table
		goData, st, rejected, err := WriteTable(spec)
		if rejected {
			o.Rejected()
			return nil
		}
		if err != nil {
			return Failf("C15/go-write-error", "%v", err)
		}
		ShapeClasses(o, spec, st)
		wantLogs := NormLogs(spec.Logs, spec.Cfg)
		o.Nontrivial = len(spec.Refs)+len(spec.Logs) >= 2 && (st.Blocks > 1 || len(spec.Logs) > 0)
		if !c.CWrites {
			o.Class("go-writes-c-reads")
			tf := filepath.Join(dir, "go.ref")
			os.WriteFile(tf, goData, 0644)
			q := buildQueries(spec.Refs, wantLogs, true, spec.Cfg.HashSize())
			qf := filepath.Join(dir, "queries")
			os.WriteFile(qf, []byte(strings.Join(q.lines, "\n")+"\n"), 0644)
			out, err := runC("read-table", tf, qf)
			if err != nil {
				return Failf("C15/c-reader-crash", "C reader on a table written by Go: %v", err)
			}
			if len(spec.Refs)+len(spec.Logs) == 0 {
				return nil
			}
			if !strings.HasPrefix(out, fmt.Sprintf("limits %d %d hash %d\n", spec.Min, spec.Max, spec.Cfg.HashSize())) {
				return Failf("C15/c-open", "C reader on a table written by Go answered %q", trunc(out, 300))
			}
			o.Count("c_queries", len(q.lines))
			return compareSections("C15/go-to-c", out, q, 1)
		}
		o.Class("c-writes-go-reads")
		sf := filepath.Join(dir, "spec")
		os.WriteFile(sf, []byte(tableSpecText(spec)), 0644)
		tf := filepath.Join(dir, "c.ref")
		out, err := runC("write-table", sf, tf)
		if err != nil {
			return Failf("C15/c-writer-crash", "C writer: %v", err)
		}
		if len(spec.Refs)+len(spec.Logs) == 0 {
			return nil
		}
		if strings.TrimSpace(out) != "close 0" {
			return Failf("C15/c-writer-refuses", "C writer refused a table the Go writer accepts: %q", trunc(out, 300))
		}
		data, err := os.ReadFile(tf)
		if err != nil {
			return Failf("C15/c-writer-output", "%v", err)
		}
		rd, err := reftable.NewReader(&reftable.ByteBlockSource{Source: data}, "c.ref")
		if err != nil {
			return Failf("C15/go-open", "Go reader cannot open a table written by C: %v", err)
		}
		if rd.MinUpdateIndex() != spec.Min || rd.MaxUpdateIndex() != spec.Max {
			return Failf("C15/limits", "limits of the C-written table read back as [%d,%d], want [%d,%d]", rd.MinUpdateIndex(), rd.MaxUpdateIndex(), spec.Min, spec.Max)
		}
		refs, err := AllRefs(rd)
		if err != nil {
			return Failf("C15/c-to-go/scan-error", "Go scan of a table written by C: %v", err)
		}
		if d := DiffRefs(refs, spec.Refs); d != "" {
			return Failf("C15/c-to-go/ref-mismatch", "Go reading a table written by C: %s", d)
		}
		logs, err := AllLogs(rd)
		if err != nil {
			return Failf("C15/c-to-go/scan-error", "Go log scan of a table written by C: %v", err)
		}
		if d := DiffLogs(logs, wantLogs); d != "" {
			return Failf("C15/c-to-go/log-mismatch", "Go reading a table written by C: %s", d)
		}
		if err := CheckSeeks("C15/c-to-go", rd, spec.Refs, wantLogs, nil, nil, o); err != nil {
			return err
		}
		_, err = checkRefsFor("C15/c-to-go/refsfor", rd, spec.Refs, queryIDs([]gen.TableSpec{spec}, nil), o)
		return err
	}

	// ---- stacks
	h := *c.History
	o.Class("stack")
	hs := "1"
	if h.Cfg.Hash == 2 {
		hs = "2"
	}
	if !c.CWrites {
		o.Class("go-writes-c-reads")
		hooks := &histHooks{atEnd: func(sdir string, store *Store) error {
			q := buildQueries(store.SortedRefs(), store.SortedLogs(), false, h.Cfg.HashSize())
			qf := filepath.Join(dir, "queries")
			os.WriteFile(qf, []byte(strings.Join(q.lines, "\n")+"\n"), 0644)
			before := dirState(sdir)
			out, err := runC("read-stack", sdir, hs, qf)
			if err != nil {
				return Failf("C15/c-stack-reader-crash", "C reading a stack written by Go: %v", err)
			}
			if !strings.HasPrefix(out, "opened\n") {
				return Failf("C15/c-stack-open", "C cannot open a stack directory written by Go: %q", trunc(out, 300))
			}
			if err := compareSections("C15/go-to-c/stack", out, q, 1); err != nil {
				return err
			}
			if after := dirState(sdir); after != before {
				return Failf("C15/c-reader-changed-dir", "reading with the C implementation changed the directory:\nbefore %s\nafter  %s", before, after)
			}
			o.Nontrivial = len(store.Refs)+len(store.Logs) >= 2
			return nil
		}}
		return runHistory("C15/go-stack", h, o, hooks)
	}
	o.Class("c-writes-go-reads")
	// the C side replays the transactions; the model predicts the update indices
	store := NewStore()
	next := uint64(1)
	var sb strings.Builder
	sb.WriteString(cfgLine(h.Cfg) + "\n")
	steps := 0
	for _, op := range h.Ops {
		switch op.Kind {
		case opAdd:
			min := next
			refs, logs, max := op.Tx.Resolve(min, store, h.Cfg)
			if steps == 0 {
				// A ref that is never deleted keeps the stack non-empty, so that the
				// update indices the model predicts are the ones the C stack hands out
				// (an emptied stack restarts at 1 in both implementations).
				keep := gen.Ref{Name: "refs/zz/keep", Idx: min, Kind: gen.KVal, Val: bytesOf(7, h.Cfg.HashSize())}
				refs = gen.SortRefs(append(refs, keep))
			}
			if len(refs)+len(logs) == 0 {
				continue
			}
			sb.WriteString(fmt.Sprintf("tx %d\n", op.Tx.Wide))
			for _, r := range refs {
				rr := r
				rr.Idx -= min // the driver adds the stack's next update index
				sb.WriteString(dumpRef(rr) + "\n")
			}
			for _, l := range logs {
				sb.WriteString(inputLog(l) + "\n")
			}
			sb.WriteString("end\n")
			store.Apply(refs, NormLogs(logs, h.Cfg))
			next = max + 1
			steps++
		case opCompactAll:
			if steps > 0 {
				sb.WriteString("compact\n")
			}
		case opAutoCompact:
			sb.WriteString("autocompact\n")
		}
	}
	if steps == 0 {
		return nil
	}
	sf := filepath.Join(dir, "spec")
	os.WriteFile(sf, []byte(sb.String()), 0644)
	sdir := filepath.Join(dir, "stack")
	os.MkdirAll(sdir, 0755)
	out, err := runC("write-stack", sf, sdir)
	if err != nil {
		return Failf("C15/c-stack-writer-crash", "C writing a stack: %v", err)
	}
	for _, line := range strings.Split(strings.TrimSpace(out), "\n") {
		if line != "" && !strings.HasSuffix(line, " 0") {
			return Failf("C15/c-stack-writer-error", "C stack operation failed: %q (all output: %q)", line, trunc(out, 400))
		}
	}
	cfg := h.Cfg.Config()
	st, err := reftable.NewStack(sdir, cfg)
	if err != nil {
		return Failf("C15/go-stack-open", "Go cannot open a stack directory written by C: %v (dir %v)", err, ListDir(sdir))
	}
	defer st.Close()
	if err := CompareView("C15/c-to-go/stack", "Go reading a stack written by C", st, store); err != nil {
		return err
	}
	if err := CheckSeeks("C15/c-to-go/stack", st.Merged(), store.SortedRefs(), store.SortedLogs(), nil, nil, o); err != nil {
		return err
	}
	o.Nontrivial = steps >= 2
	return nil
}

func TestC15(t *testing.T) { Run(t, "C15", genC15, propC15) }
