package checks

import (
	"fmt"
	"os"
	"testing"
	. "verifharness/hist"

	"github.com/google/reftable"
	"pgregory.net/rapid"
	. "verifharness/evid"
	"verifharness/gen"
	"verifharness/model"
)

type c13Step struct {
	Tx     *HTx          `json:"tx,omitempty"`
	Expire *model.Expiry `json:"expire,omitempty"`
	Plain  bool          `json:"compact_all,omitempty"`
}

type c13Case struct {
	Cfg   gen.Cfg   `json:"cfg"`
	Auto  bool      `json:"auto"`
	Steps []c13Step `json:"steps"`
}

func drawLimit(t *rapid.T, label string, hi int) uint64 {
	switch rapid.IntRange(0, 5).Draw(t, label+"K") {
	case 0, 4, 5:
		return 0 // unset
	case 1:
		return uint64(rapid.IntRange(1, hi).Draw(t, label))
	case 2:
		return uint64(rapid.IntRange(1, hi/2+1).Draw(t, label))
	}
	return uint64(hi + rapid.IntRange(0, 5).Draw(t, label))
}

func genC13(t *rapid.T) c13Case {
	c := c13Case{}
	c.Cfg = DrawStackCfg(t)
	c.Cfg.SkipNameCheck = true
	c.Auto = rapid.Bool().Draw(t, "auto")
	o := TxOpts{Pool: SafePool[:rapid.IntRange(1, 5).Draw(t, "npool")], MaxRefs: 2, MaxLogs: 5,
		HashSize: c.Cfg.HashSize(), Exact: c.Cfg.Exact, DelWeight: 2, TimeMax: 20}
	ntx := rapid.IntRange(3, 30).Draw(t, "ntx")
	for i := 0; i < ntx; i++ {
		tx := DrawTx(t, o)
		if len(tx.Refs)+len(tx.Logs) == 0 {
			tx.Logs = append(tx.Logs, HLog{Name: Str(o.Pool[0]), Sel: -1, Time: uint64(i % 20), Msg: "m"})
		}
		c.Steps = append(c.Steps, c13Step{Tx: &tx})
		if rapid.IntRange(0, 9).Draw(t, "mid") == 0 {
			if rapid.Bool().Draw(t, "midPlain") {
				c.Steps = append(c.Steps, c13Step{Plain: true})
			} else {
				c.Steps = append(c.Steps, c13Step{Expire: &model.Expiry{Time: drawLimit(t, "time", 20), Max: drawLimit(t, "max", 2*ntx), Min: drawLimit(t, "min", 2*ntx)}})
			}
		}
	}
	c.Steps = append(c.Steps, c13Step{Expire: &model.Expiry{Time: drawLimit(t, "time", 20), Max: drawLimit(t, "max", 2*ntx), Min: drawLimit(t, "min", 2*ntx)}})
	return c
}

func propC13(c c13Case, o *Obs) error {
	dir := ScratchDir()
	defer os.RemoveAll(dir)
	cfg := c.Cfg.Config()
	st, err := reftable.NewStack(dir, cfg)
	if err != nil {
		return Failf("C13/open", "NewStack: %v", err)
	}
	defer func() { st.Close() }()
	st.VerifSetAutoCompact(c.Auto)
	store := NewStore()
	removedAny, keptAny, onLimit := false, false, false
	for i, s := range c.Steps {
		what := fmt.Sprintf("step %d", i)
		switch {
		case s.Tx != nil:
			var refs []gen.Ref
			var logs []gen.Log
			err := st.Add(func(w *reftable.Writer) error {
				min := st.NextUpdateIndex() + uint64(s.Tx.Gap)
				var max uint64
				refs, logs, max = s.Tx.Resolve(min, store, c.Cfg)
				return WriteFn(min, max, refs, logs)(w)
			})
			if err != nil {
				return Failf("C13/add-error", "%s: Add: %v", what, err)
			}
			store.Apply(refs, NormLogs(logs, c.Cfg))
		case s.Plain:
			if err := st.CompactAll(nil); err != nil {
				return Failf("C13/compact-error", "%s: CompactAll(nil): %v", what, err)
			}
		case s.Expire != nil:
			e := *s.Expire
			if len(tableNames(st, dir)) == 0 {
				continue // CompactAll(cfg) on an empty stack is outside the property
			}
			before := store.SortedLogs()
			kept := model.Expire(before, e)
			err := st.CompactAll(&reftable.LogExpirationConfig{Time: e.Time, MaxUpdateIndex: e.Max, MinUpdateIndex: e.Min})
			if err != nil {
				return Failf("C13/compact-error", "%s: CompactAll(%+v): %v", what, e, err)
			}
			store.Logs = map[string]gen.Log{}
			for _, l := range kept {
				store.Logs[l.Key()] = l
			}
			if len(kept) < len(before) {
				removedAny = true
			}
			if len(kept) > 0 {
				keptAny = true
			}
			for _, l := range before {
				if e.Time > 0 && l.Time == e.Time || e.Max != 0 && l.Idx == e.Max || e.Min != 0 && l.Idx == e.Min {
					onLimit = true
				}
			}
			what += fmt.Sprintf(" (CompactAll with expiry %+v: %d of %d entries must remain)", e, len(kept), len(before))
		}
		if err := CompareView("C13", what, st, store); err != nil {
			return err
		}
	}
	st.Close()
	st, err = reftable.NewStack(dir, cfg)
	if err != nil {
		return Failf("C13/reopen", "NewStack at the end: %v", err)
	}
	if err := CompareView("C13/fresh", "fresh handle at the end", st, store); err != nil {
		return err
	}
	o.ClassIf(removedAny, "some-expired")
	o.ClassIf(keptAny, "some-kept")
	o.ClassIf(onLimit, "entry-on-limit")
	o.Nontrivial = removedAny && keptAny && onLimit
	return nil
}

func TestC13(t *testing.T) { Run(t, "C13", genC13, propC13) }
