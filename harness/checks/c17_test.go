package checks

import (
	"fmt"
	"math"
	"math/bits"
	"os"
	"strconv"
	"testing"
	. "verifharness/hist"

	"github.com/google/reftable"
	"pgregory.net/rapid"
	. "verifharness/evid"
	"verifharness/gen"
)

// ---------- (a) the segment chooser as a pure function

func sizeClass(sz uint64) int { return bits.Len64(sz) - 1 } // floor(log2), sz >= 1

func hasEqualNeighbours(sizes []uint64) bool {
	for i := 1; i < len(sizes); i++ {
		if sizeClass(sizes[i]) == sizeClass(sizes[i-1]) {
			return true
		}
	}
	return false
}

// checkSegment is a validity predicate (many answers are acceptable).
func checkSegment(sizes []uint64) error {
	start, end, ok := reftable.VerifSuggestSegment(append([]uint64{}, sizes...))
	want := hasEqualNeighbours(sizes)
	if ok != want {
		return Failf("C17/chooser-nil", "sizes %v: segment suggested = %v, but adjacent tables in one size class = %v", sizes, ok, want)
	}
	if ok && !(0 <= start && start < end && end <= len(sizes) && end-start >= 2) {
		return Failf("C17/chooser-range", "sizes %v: suggested segment [%d,%d) is not a range of >= 2 tables", sizes, start, end)
	}
	return nil
}

var repSizes = []uint64{1, 2, 3, 4, 7, 8, 9, 15, 16, 17, 100, 1000}

// enumerate all vectors of length 0..maxLen over repSizes; shard by index.
func enumerateVectors(rec *Recorder, maxLen, shard, nshards int) (stop bool) {
	total, nontrivial := 0, 0
	idx := 0
	var vec []uint64
	var rec1 func(depth int) bool
	rec1 = func(depth int) bool {
		if idx%nshards == shard {
			total++
			if hasEqualNeighbours(vec) {
				nontrivial++
			}
			if err := checkSegment(vec); err != nil {
				v := err.(*Violation)
				if !rec.Known(v.Sig) {
					rec.Violate(v.Sig, v.Msg, map[string]interface{}{"sizes": append([]uint64{}, vec...)})
					return true
				}
			}
		}
		idx++
		if depth == maxLen {
			return false
		}
		for _, s := range repSizes {
			vec = append(vec, s)
			if rec1(depth + 1) {
				return true
			}
			vec = vec[:len(vec)-1]
		}
		return false
	}
	stop = rec1(0)
	rec.AddEnumerated(total, nontrivial)
	rec.SetExtra("exhaustive_vectors", total)
	rec.SetExtra("exhaustive_max_len", maxLen)
	rec.SetExtra("exhaustive_done", !stop)
	rec.AddSample(map[string]interface{}{"enumerated_sizes_example": []uint64{8, 9, 1, 2, 3}})
	return stop
}

// ---------- (b)+(c) through the stack

type c17Case struct {
	// Vec: a size vector for the chooser (arbitrary sizes >= 1)
	Vec []uint64 `json:"vec,omitempty"`
	// Workload: N identical-size transactions
	Cfg      gen.Cfg `json:"cfg"`
	N        int     `json:"n"`
	RefsPer  int     `json:"refs_per_tx"`
	LogsPer  int     `json:"logs_per_tx"`
	NameLen  int     `json:"name_len"`
	Kind     int     `json:"kind"`
	Rewrite  int     `json:"rewrite"` // 0: fresh names; k>0: cycle through k name sets
	// TailCounter: the part of a name that distinguishes one transaction from the next is its
	// LAST eight bytes, behind padding (refs/r0/xxxx...00000017) instead of in front of it
	// (refs/r0/00000017xxxx...): all names of the workload then share a prefix of NameLen-8
	// bytes, which the format's key prefix compression removes when tables are merged
	TailCounter bool `json:"tail_counter,omitempty"`
	IsVector bool    `json:"is_vector,omitempty"`
}

func genC17(t *rapid.T) c17Case {
	c := c17Case{}
	if rapid.IntRange(0, 2).Draw(t, "which") != 0 {
		c.IsVector = true
		n := rapid.IntRange(0, 40).Draw(t, "len")
		base := rapid.IntRange(0, 50).Draw(t, "baseClass")
		for i := 0; i < n; i++ {
			var v uint64
			switch rapid.IntRange(0, 3).Draw(t, "szK") {
			case 0:
				v = uint64(rapid.IntRange(1, 40).Draw(t, "sz"))
			case 1:
				cl := base + rapid.IntRange(0, 3).Draw(t, "cl")
				v = uint64(1)<<uint(cl) + rapid.Uint64Range(0, uint64(1)<<uint(cl)-1).Draw(t, "low")
			case 2:
				v = uint64(1) << uint(rapid.IntRange(0, 55).Draw(t, "pow"))
			case 3:
				v = rapid.Uint64Range(1, 1<<56).Draw(t, "sz")
			}
			c.Vec = append(c.Vec, v)
		}
		return c
	}
	c.Cfg = DrawStackCfg(t)
	c.Cfg.SkipNameCheck = true
	maxN := 300
	if os.Getenv("VERIF_TIER") == "thorough" {
		maxN = 1500
	}
	if v, err := strconv.Atoi(os.Getenv("VERIF_C17_MAXN")); err == nil {
		maxN = v
	}
	c.N = rapid.IntRange(8, maxN).Draw(t, "n")
	if os.Getenv("VERIF_TIER") == "thorough" && os.Getenv("VERIF_C17_MAXN") == "" && rapid.IntRange(0, 24).Draw(t, "large") == 0 {
		// the property's "N up to several thousand"
		c.N = rapid.IntRange(1500, 5000).Draw(t, "nLarge")
	}
	c.RefsPer = rapid.IntRange(0, 8).Draw(t, "refsPer")
	c.LogsPer = rapid.IntRange(0, 2).Draw(t, "logsPer")
	if c.RefsPer+c.LogsPer == 0 {
		c.RefsPer = 1
	}
	c.NameLen = rapid.IntRange(12, 60).Draw(t, "nameLen")
	c.Kind = rapid.SampledFrom([]int{gen.KVal, gen.KPeeled, gen.KSym, gen.KDel}).Draw(t, "kind")
	c.Rewrite = rapid.SampledFrom([]int{0, 0, 1, 2, 5, 50}).Draw(t, "rewrite")
	if rapid.IntRange(0, 2).Draw(t, "tailCounter") == 0 {
		// as long as a record still fits an empty block of the drawn size
		maxLen := c.Cfg.EffBlockSize() - 120 - 2*c.Cfg.HashSize()
		if maxLen > 250 {
			maxLen = 250
		}
		if maxLen >= 24 {
			c.TailCounter = true
			c.NameLen = rapid.IntRange(20, maxLen).Draw(t, "nameLenTail")
			if rapid.Bool().Draw(t, "tailRefsOnly") {
				c.LogsPer = 0
				if c.RefsPer == 0 {
					c.RefsPer = 1
				}
			}
			if c.N > 150 {
				c.N = 8 + c.N%143
			}
		}
	}
	return c
}

func padName(prefix string, n, length int, tail bool) string {
	if tail {
		s := prefix
		for len(s) < length-8 {
			s += "x"
		}
		return s + fmt.Sprintf("%08d", n)
	}
	s := fmt.Sprintf("%s%08d", prefix, n)
	for len(s) < length {
		s += "x"
	}
	return s
}

// compactionShape: after must be derivable from before by replacing disjoint contiguous
// runs of >= 2 tables by at most one new table each (one compaction, or several in a row),
// and the number of tables must have gone down if anything changed.
func compactionShape(before, after []string) (changed bool, err error) {
	if fmt.Sprint(before) == fmt.Sprint(after) {
		return false, nil
	}
	inAfter := map[string]int{}
	for i, n := range after {
		inAfter[n] = i
	}
	bi, ai := 0, 0
	for bi < len(before) || ai < len(after) {
		// retained table: must appear in the same relative order
		if bi < len(before) {
			if j, ok := inAfter[before[bi]]; ok {
				if j < ai {
					return true, fmt.Errorf("table %s moved", before[bi])
				}
				// everything in after[ai:j] is new, with no removed run to account for it
				if j > ai {
					return true, fmt.Errorf("%d new tables appeared without replacing a run", j-ai)
				}
				bi++
				ai = j + 1
				continue
			}
		}
		// a run of removed tables, followed by the new tables that replace it
		r := 0
		for bi < len(before) {
			if _, ok := inAfter[before[bi]]; ok {
				break
			}
			bi++
			r++
		}
		ins := 0
		for ai < len(after) && !contains(before, after[ai]) {
			ai++
			ins++
		}
		if r < 2 || ins > 1 {
			return true, fmt.Errorf("a run of %d tables was replaced by %d", r, ins)
		}
	}
	if len(after) >= len(before) {
		return true, fmt.Errorf("number of tables did not decrease (%d -> %d)", len(before), len(after))
	}
	return true, nil
}

func propC17(c c17Case, o *Obs) error {
	if c.IsVector {
		o.Class("chooser-vector")
		o.Nontrivial = hasEqualNeighbours(c.Vec)
		if !reftable.VerifExportAvailable {
			o.Class("chooser-unavailable")
			o.Nontrivial = false
			return nil
		}
		return checkSegment(c.Vec)
	}
	o.Class("workload")
	dir := ScratchDir()
	defer os.RemoveAll(dir)
	st, err := reftable.NewStack(dir, c.Cfg.Config())
	if err != nil {
		return Failf("C17/open", "NewStack: %v", err)
	}
	defer st.Close()
	hs := c.Cfg.HashSize()
	val := make([]byte, hs)
	for i := range val {
		val[i] = byte(i + 1)
	}
	entriesPerTx := c.RefsPer + c.LogsPer
	sameSize := true
	var firstSize int64 = -1
	maxDepth := 0
	for n := 1; n <= c.N; n++ {
		before := tableNames(st, dir)
		set := n
		if c.Rewrite > 0 {
			set = n % c.Rewrite
		}
		var min uint64
		err := st.Add(func(w *reftable.Writer) error {
			min = st.NextUpdateIndex()
			w.SetLimits(min, min)
			for j := 0; j < c.RefsPer; j++ {
				r := gen.Ref{Name: Str(padName(fmt.Sprintf("refs/r%d/", j), set, c.NameLen, c.TailCounter)), Idx: min, Kind: c.Kind}
				switch c.Kind {
				case gen.KVal:
					r.Val = val
				case gen.KPeeled:
					r.Val, r.Peeled = val, val
				case gen.KSym:
					r.Target = "refs/heads/target"
				}
				if err := w.AddRef(r.Record()); err != nil {
					return err
				}
			}
			for j := 0; j < c.LogsPer; j++ {
				l := gen.Log{Name: Str(padName(fmt.Sprintf("refs/l%d/", j), set, c.NameLen, c.TailCounter)), Idx: min, Old: val, New: val, Who: "w", Email: "e", Time: 7, Msg: "m\n"}
				if err := w.AddLog(l.Record()); err != nil {
					return err
				}
			}
			return nil
		})
		if err != nil {
			return Failf("C17/add-error", "Add #%d: %v", n, err)
		}
		after := tableNames(st, dir)
		// (b) the step is an append followed by at most one compaction of a contiguous run
		if len(after) == len(before)+1 && fmt.Sprint(after[:len(before)]) == fmt.Sprint(before) {
			// plain append; the size of the new table is the transaction's table size
			if fi, err := os.Stat(dir + "/" + after[len(after)-1]); err == nil {
				if firstSize < 0 {
					firstSize = fi.Size()
				} else if fi.Size() != firstSize {
					sameSize = false
				}
			}
		} else {
			// a compaction ran.  Either the new table was part of the merged run
			// (before+[new] -> after), or it survives as the last table and a run
			// among the older ones was merged.
			withNew := append(append([]string{}, before...), "<new>")
			_, e1 := compactionShape(withNew, after)
			e2 := fmt.Errorf("new table not last")
			if len(after) > 0 && !contains(before, after[len(after)-1]) {
				_, e2 = compactionShape(before, after[:len(after)-1])
			}
			if e1 != nil && e2 != nil {
				return Failf("C17/shape", "Add #%d changed the tables from %v (+ new table) to %v: not one contiguous run of >=2 tables replaced by <=1 (%v / %v)", n, before, after, e1, e2)
			}
		}
		if d := len(after); d > maxDepth {
			maxDepth = d
		}
		if n >= 4 && sameSize {
			if limit := 2 * math.Log2(float64(n)); float64(len(after)) > limit {
				return Failf("C17/depth/"+c17Shape(c, n), "after %d identical-size transactions the stack has %d tables, more than 2*log2(n) = %.2f", n, len(after), limit)
			}
		}
	}
	if sameSize && c.N >= 4 {
		limit := float64(c.N) * math.Log2(float64(c.N)) * float64(entriesPerTx)
		if float64(st.Stats.EntriesWritten) > limit {
			return Failf("C17/cost/"+c17Shape(c, c.N), "%d transactions of %d entries: compaction rewrote %d entries, more than N*log2(N)*entries = %.0f", c.N, entriesPerTx, st.Stats.EntriesWritten, limit)
		}
	}
	// explicit AutoCompact calls: shape of the change
	for i := 0; i < 3; i++ {
		before := tableNames(st, dir)
		if err := st.AutoCompact(); err != nil {
			return Failf("C17/autocompact-error", "AutoCompact: %v", err)
		}
		after := tableNames(st, dir)
		if _, err := compactionShape(before, after); err != nil {
			return Failf("C17/shape", "AutoCompact changed %v into %v: %v", before, after, err)
		}
	}
	o.ClassIf(!sameSize, "tables-not-identical-size(bounds-not-asserted)")
	o.ClassIf(c.N >= 64, "N>=64")
	o.ClassIf(c.N >= 1500, "N>=1500")
	o.ClassIf(c.Rewrite > 0, "rewritten-names")
	o.ClassIf(c.LogsPer > 0, "with-logs")
	o.ClassIf(c.TailCounter, "names-share-all-but-the-last-8-bytes")
	o.Count("adds", c.N)
	o.Nontrivial = c.N >= 64 && sameSize
	return nil
}

func TestC17(t *testing.T) {
	rec := NewRecorder("C17")
	if os.Getenv("VERIF_REPLAY") == "" && reftable.VerifExportAvailable {
		maxLen := 4
		if os.Getenv("VERIF_TIER") == "thorough" {
			maxLen = 6
		}
		if v, err := strconv.Atoi(os.Getenv("VERIF_C17_MAXLEN")); err == nil {
			maxLen = v
		}
		shard, _ := strconv.Atoi(os.Getenv("VERIF_SHARD"))
		nsh, _ := strconv.Atoi(os.Getenv("VERIF_NSHARDS"))
		if nsh < 1 {
			nsh = 1
		}
		if enumerateVectors(rec, maxLen, shard, nsh) {
			rec.Flush(false)
			t.Fatalf("C17 violated by an enumerated size vector")
		}
	}
	RunWith(t, rec, genC17, propC17)
}

// c17Shape names the payload class of a workload for violation signatures.
func c17Shape(c c17Case, n int) string {
	if c.LogsPer > 0 {
		return "with-logs"
	}
	if c.TailCounter {
		return "refs-sharing-a-long-prefix"
	}
	return "refs-only"
}
