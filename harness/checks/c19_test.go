package checks

import (
	"encoding/json"
	"fmt"
	"os"
	"path/filepath"
	"strings"
	"sync"
	"testing"

	"github.com/google/reftable"
	"pgregory.net/rapid"
	. "verifharness/evid"
	"verifharness/gen"
	. "verifharness/hist"
)

type readOp struct {
	Kind  int    `json:"k"` // 0 seekref, 1 seeklog, 2 refsfor, 3 readref
	Name  Str    `json:"n,omitempty"`
	Idx   uint64 `json:"i,omitempty"`
	OID   Hex    `json:"oid,omitempty"`
	Limit int    `json:"limit"`
}

type c19Case struct {
	Tables     []gen.TableSpec `json:"tables"`
	View       int             `json:"view"` // 0 single reader (memory), 1 single reader (file), 2 merged (memory), 3 stack view (files)
	Ops        []readOp        `json:"ops"`
	Goroutines [][2]int        `json:"goroutines"` // (start, length) slices of Ops
}

func genC19(t *rapid.T) c19Case {
	c := c19Case{}
	c.View = rapid.IntRange(0, 3).Draw(t, "view")
	max := 4
	if c.View < 2 {
		max = 1
	}
	c.Tables = DrawStackTables(t, max, rapid.IntRange(0, 2).Draw(t, "hash"), true, 4)
	var names []string
	var oids [][]byte
	for _, tb := range c.Tables {
		for _, r := range tb.Refs {
			names = append(names, string(r.Name))
			if r.Val != nil {
				oids = append(oids, r.Val)
			}
		}
		for _, l := range tb.Logs {
			names = append(names, string(l.Name))
		}
	}
	names = append(names, "", "zzz")
	oids = append(oids, make([]byte, c.Tables[0].Cfg.HashSize()))
	n := rapid.IntRange(20, 120).Draw(t, "nops")
	for i := 0; i < n; i++ {
		op := readOp{Kind: rapid.IntRange(0, 3).Draw(t, "kind"), Limit: rapid.IntRange(1, 30).Draw(t, "limit")}
		op.Name = Str(rapid.SampledFrom(names).Draw(t, "name"))
		op.Idx = uint64(rapid.IntRange(0, 14).Draw(t, "idx"))
		if op.Kind == 2 {
			op.OID = rapid.SampledFrom(oids).Draw(t, "oid")
		}
		c.Ops = append(c.Ops, op)
	}
	g := rapid.IntRange(2, 8).Draw(t, "goroutines")
	for i := 0; i < g; i++ {
		start := rapid.IntRange(0, n-1).Draw(t, "start")
		length := rapid.IntRange(1, n).Draw(t, "len")
		c.Goroutines = append(c.Goroutines, [2]int{start, length})
	}
	return c
}

func runReadOp(tab reftable.Table, op readOp) string {
	var sb strings.Builder
	var it *reftable.Iterator
	var err error
	switch op.Kind {
	case 0:
		it, err = tab.SeekRef(string(op.Name))
	case 1:
		it, err = tab.SeekLog(string(op.Name), op.Idx)
	case 2:
		it, err = tab.RefsFor(op.OID)
	case 3:
		rec, err := reftable.ReadRef(tab, string(op.Name))
		if err != nil {
			return "err:" + err.Error()
		}
		if rec == nil {
			return "nil"
		}
		return gen.RefOf(rec).String()
	}
	if err != nil {
		return "err:" + err.Error()
	}
	for i := 0; i < op.Limit; i++ {
		if op.Kind == 1 {
			var l reftable.LogRecord
			ok, err := it.NextLog(&l)
			if err != nil {
				return sb.String() + "err:" + err.Error()
			}
			if !ok {
				break
			}
			sb.WriteString(gen.LogOf(&l).String())
		} else {
			var r reftable.RefRecord
			ok, err := it.NextRef(&r)
			if err != nil {
				return sb.String() + "err:" + err.Error()
			}
			if !ok {
				break
			}
			sb.WriteString(gen.RefOf(&r).String())
		}
	}
	return sb.String()
}

func propC19(c c19Case, o *Obs) error {
	if p := os.Getenv("VERIF_CURCASE"); p != "" {
		// the race detector aborts the process: leave the case where the driver finds it
		b, _ := json.Marshal(map[string]interface{}{"case": c})
		os.WriteFile(p, b, 0644)
	}
	bs, rejected, err := BuildTables(c.Tables)
	if rejected || err != nil || len(bs.Data) == 0 {
		o.Rejected()
		return nil
	}
	o.ClassIf(bs.LongLogStreams > 0, "log-stream-longer-than-block")
	// The view is opened twice: the sequential reference results come from one instance, the
	// concurrent phase runs on a second, untouched one - a first pass over the same instance
	// would warm every lazily initialised or "learned" field and hide races on them.
	var cleanup []func()
	defer func() {
		for _, f := range cleanup {
			f()
		}
	}()
	var stackDir string
	openView := func() (reftable.Table, error) {
		switch c.View {
		case 0:
			return reftable.NewReader(&reftable.ByteBlockSource{Source: bs.Data[0]}, "t")
		case 1:
			d := ScratchDir()
			cleanup = append(cleanup, func() { os.RemoveAll(d) })
			fn := filepath.Join(d, "t.ref")
			os.WriteFile(fn, bs.Data[0], 0644)
			src, err := reftable.NewFileBlockSource(fn)
			if err != nil {
				return nil, err
			}
			rd, err := reftable.NewReader(src, "t")
			if err != nil {
				return nil, err
			}
			cleanup = append(cleanup, func() { rd.Close() })
			return rd, nil
		case 2:
			tabs, err := bs.Readers()
			if err != nil {
				return nil, err
			}
			return reftable.NewMerged(tabs, bs.HashID)
		}
		if stackDir == "" {
			stackDir = bs.WriteDir()
			d := stackDir
			cleanup = append(cleanup, func() { os.RemoveAll(d) })
		}
		st, err := reftable.NewStack(stackDir, reftable.Config{HashID: bs.HashID})
		if err != nil {
			return nil, err
		}
		cleanup = append([]func(){func() { st.Close() }}, cleanup...)
		return st.Merged(), nil
	}
	ref, err := openView()
	var tab reftable.Table
	if err == nil {
		tab, err = openView()
	}
	if err != nil {
		return Failf("C19/open", "view %d: %v", c.View, err)
	}
	// sequential reference results
	want := make([]string, len(c.Ops))
	for i, op := range c.Ops {
		want[i] = runReadOp(ref, op)
	}
	// concurrent
	var wg sync.WaitGroup
	start := make(chan struct{})
	errs := make([]string, len(c.Goroutines))
	for g, sl := range c.Goroutines {
		wg.Add(1)
		go func(g int, sl [2]int) {
			defer wg.Done()
			defer func() {
				if r := recover(); r != nil {
					errs[g] = fmt.Sprintf("goroutine %d panicked: %v", g, r)
				}
			}()
			<-start
			for j := 0; j < sl[1]; j++ {
				i := (sl[0] + j) % len(c.Ops)
				if got := runReadOp(tab, c.Ops[i]); got != want[i] {
					errs[g] = fmt.Sprintf("goroutine %d, op %d %+v: concurrent result %q differs from sequential result %q", g, i, c.Ops[i], got, want[i])
					return
				}
			}
		}(g, sl)
	}
	close(start)
	wg.Wait()
	for _, e := range errs {
		if e != "" {
			return Failf("C19/result-differs", "%s", e)
		}
	}
	o.Class(fmt.Sprintf("view-%d", c.View))
	o.Class(fmt.Sprintf("goroutines-%d", len(c.Goroutines)))
	overlap := 0
	for _, sl := range c.Goroutines {
		overlap += sl[1]
	}
	o.Count("concurrent_reads", overlap)
	o.Nontrivial = len(c.Goroutines) >= 2 && overlap > len(c.Ops)
	return nil
}

func TestC19(t *testing.T) { Run(t, "C19", genC19, propC19) }
