package checks

import (
	"fmt"
	"os"
	"testing"
	. "verifharness/hist"

	"github.com/google/reftable"
	"pgregory.net/rapid"
	. "verifharness/evid"
	"verifharness/gen"
	"verifharness/model"
)

const (
	opAdd = iota
	opCompactAll
	opAutoCompact
	opCompactRange
	opReopen
	opReaderReopen
	opPlantLock  // create <table>.lock for table A mod n, as a compactor killed after taking its table locks leaves it
	opClearLocks // remove the planted locks again
)

type c07Op struct {
	Kind int  `json:"op"`
	Tx   *HTx `json:"tx,omitempty"`
	A    int  `json:"a,omitempty"`
	B    int  `json:"b,omitempty"`
}

type c07Case struct {
	Cfg  gen.Cfg `json:"cfg"`
	Auto bool    `json:"auto"`
	Ops  []c07Op `json:"ops"`
}

func genHistory(t *rapid.T, minOps, maxOps int, delWeight int) c07Case {
	c := c07Case{}
	c.Cfg = DrawStackCfg(t)
	c.Cfg.SkipNameCheck = rapid.Bool().Draw(t, "skipname")
	c.Auto = rapid.Bool().Draw(t, "auto")
	n := rapid.IntRange(minOps, maxOps).Draw(t, "nops")
	o := TxOpts{Pool: SafePool[:rapid.IntRange(2, len(SafePool)).Draw(t, "npool")], MaxRefs: 4, MaxLogs: 3,
		HashSize: c.Cfg.HashSize(), Exact: c.Cfg.Exact, DelWeight: delWeight}
	if rapid.IntRange(0, 5).Draw(t, "cancelFamily") == 3 {
		// family: few names, half of the records deletions, no logs - so that compacting a
		// range that reaches the bottom leaves nothing and the list only shrinks
		o.Pool, o.MaxRefs, o.MaxLogs, o.DelWeight = SafePool[:2], 2, 0, 5
	}
	// a sixth of the histories: leftover table locks of a killed compactor appear and disappear;
	// compactions then do nothing, or less - but whatever they do must not change the view
	locks := rapid.IntRange(0, 5).Draw(t, "leftoverLocks") == 4
	for i := 0; i < n; i++ {
		op := c07Op{}
		k := rapid.IntRange(0, 19).Draw(t, "opK")
		switch {
		case k < 11:
			op.Kind = opAdd
			tx := DrawTx(t, o)
			op.Tx = &tx
		case k < 13:
			op.Kind = opCompactAll
		case k < 14:
			op.Kind = opAutoCompact
		case k < 18:
			op.Kind = opCompactRange
			op.A = rapid.IntRange(0, 7).Draw(t, "a")
			op.B = rapid.IntRange(0, 7).Draw(t, "b")
		case k < 19:
			op.Kind = opReopen
		default:
			op.Kind = opReaderReopen
		}
		if locks && op.Kind != opAdd {
			switch rapid.IntRange(0, 5).Draw(t, "lockK") {
			case 0, 1:
				op = c07Op{Kind: opPlantLock, A: rapid.IntRange(0, 7).Draw(t, "lockedTable")}
			case 2:
				op = c07Op{Kind: opClearLocks}
			}
		}
		c.Ops = append(c.Ops, op)
	}
	return c
}

func genC07(t *rapid.T) c07Case { return genHistory(t, 5, 40, 3) }

// histHooks lets C14 look at every new table file.
type histHooks struct {
	onTable func(dir string, ev TrackEvent, cfg gen.Cfg) error
	// atEnd runs while the directory still exists, all handles closed
	atEnd func(dir string, store *Store) error
}

func runHistory(sig string, c c07Case, o *Obs, hooks *histHooks) error {
	dir := ScratchDir()
	defer os.RemoveAll(dir)
	cfg := c.Cfg.Config()
	open := func() (*reftable.Stack, error) {
		st, err := reftable.NewStack(dir, cfg)
		if err == nil {
			st.VerifSetAutoCompact(c.Auto)
		}
		return st, err
	}
	st, err := open()
	if err != nil {
		return Failf(sig+"/open", "NewStack on an empty directory: %v", err)
	}
	defer func() { st.Close() }()
	var reader *reftable.Stack
	defer func() {
		if reader != nil {
			reader.Close()
		}
	}()
	store := NewStore()
	tr := &Tracker{Dir: dir}
	nCompactions, midOverTomb, coversLogDel, deletes := 0, 0, 0, 0
	exportOK := reftable.VerifExportAvailable
	planted := map[string]bool{} // lock files the harness created (leftovers of a killed compactor)
	everPlanted, compactionsUnderLocks := false, 0
	clearLocks := func() {
		for p := range planted {
			os.Remove(p)
		}
		planted = map[string]bool{}
	}
	defer clearLocks()
	lockOK := func(err error) bool { return err == nil || (len(planted) > 0 && err == reftable.ErrLockFailure) }

	for i, op := range c.Ops {
		what := fmt.Sprintf("step %d", i)
		var pending *model.Table
		before := tableNames(st, dir)
		switch op.Kind {
		case opAdd:
			var refs []gen.Ref
			var logs []gen.Log
			var min, max uint64
			err := st.Add(func(w *reftable.Writer) error {
				min = st.NextUpdateIndex() + uint64(op.Tx.Gap)
				refs, logs, max = op.Tx.Resolve(min, store, c.Cfg)
				return WriteFn(min, max, refs, logs)(w)
			})
			if err != nil {
				return Failf(sig+"/add-error", "%s: Add of a legal transaction by the only writer failed: %v", what, err)
			}
			nl := NormLogs(logs, c.Cfg)
			store.Apply(refs, nl)
			if len(refs)+len(logs) > 0 {
				pending = &model.Table{Min: min, Max: max, Refs: refs, Logs: nl}
			}
			for _, r := range refs {
				if r.Kind == gen.KDel {
					deletes++
				}
			}
			for _, l := range logs {
				if l.Del {
					deletes++
				}
			}
			what += " (Add)"
		case opCompactAll:
			if len(before) == 0 {
				continue
			}
			if err := st.CompactAll(nil); !lockOK(err) {
				return Failf(sig+"/compact-error", "%s: CompactAll(nil): %v", what, err)
			}
			what += " (CompactAll)"
		case opAutoCompact:
			if err := st.AutoCompact(); !lockOK(err) {
				return Failf(sig+"/compact-error", "%s: AutoCompact: %v", what, err)
			}
			what += " (AutoCompact)"
		case opCompactRange:
			n := len(before)
			if n == 0 || !exportOK {
				continue
			}
			first, last := op.A%n, op.B%n
			if first > last {
				first, last = last, first
			}
			ok, err := st.VerifCompactRange(first, last, nil)
			if len(planted) > 0 && lockOK(err) {
				ok = true // a compaction that meets a leftover lock may give up
			}
			if err != nil && !lockOK(err) || !ok {
				return Failf(sig+"/compact-error", "%s: compaction of tables [%d,%d] of %d: ok=%v err=%v", what, first, last, n, ok, err)
			}
			what += fmt.Sprintf(" (compact [%d,%d] of %d)", first, last, n)
		case opPlantLock:
			if len(before) == 0 {
				continue
			}
			p := dir + "/" + before[op.A%len(before)] + ".lock"
			if f, err := os.OpenFile(p, os.O_CREATE|os.O_EXCL|os.O_WRONLY, 0644); err == nil {
				f.Close()
				planted[p] = true
				everPlanted = true
			}
			continue
		case opClearLocks:
			clearLocks()
			continue
		case opReopen:
			st.Close()
			st, err = open()
			if err != nil {
				return Failf(sig+"/reopen", "%s: NewStack: %v", what, err)
			}
			what += " (reopen)"
		case opReaderReopen:
			if reader != nil {
				reader.Close()
			}
			reader, err = reftable.NewStack(dir, cfg)
			if err != nil {
				return Failf(sig+"/reopen", "%s: second handle NewStack: %v", what, err)
			}
			if err := CompareView(sig+"/second-handle", what+" (fresh second handle)", reader, store); err != nil {
				return err
			}
			continue
		}
		if err := CompareView(sig, what, st, store); err != nil {
			return err
		}
		after := tableNames(st, dir)
		if exportOK {
			for _, ev := range tr.Update(after, pending) {
				if !ev.IsAdd {
					nCompactions++
					if len(planted) > 0 {
						compactionsUnderLocks++
					}
					if ev.tombstoneOverOlder() {
						midOverTomb++
					}
					if ev.coversLogDeletion() {
						coversLogDel++
					}
				}
				if hooks != nil && hooks.onTable != nil && ev.Name != "" {
					if err := hooks.onTable(dir, ev, c.Cfg); err != nil {
						return err
					}
				}
			}
		}
	}
	// a fresh handle agrees, and nothing but the listed tables is left
	clearLocks()
	st.Close()
	st, err = open()
	if err != nil {
		return Failf(sig+"/reopen", "final NewStack: %v", err)
	}
	if err := CompareView(sig+"/fresh", "fresh handle at the end", st, store); err != nil {
		return err
	}
	if hooks != nil && hooks.atEnd != nil {
		st.Close()
		if reader != nil {
			reader.Close()
			reader = nil
		}
		if err := hooks.atEnd(dir, store); err != nil {
			return err
		}
		st, err = open()
		if err != nil {
			return Failf(sig+"/reopen", "NewStack after the other implementation read the directory: %v", err)
		}
	}
	o.ClassIf(nCompactions > 0, "has-compaction")
	o.ClassIf(midOverTomb > 0, "midrange-compaction-over-tombstone")
	o.ClassIf(coversLogDel > 0, "compaction-covers-log-deletion")
	o.ClassIf(c.Auto, "auto-compaction-on")
	o.ClassIf(everPlanted, "leftover-table-locks-planted")
	o.ClassIf(compactionsUnderLocks > 0, "compaction-ran-next-to-a-leftover-table-lock")
	o.ClassIf(c.Cfg.Hash == 2, "sha256")
	o.ClassIf(tr.Broken, "tracking-lost")
	o.Count("compactions", nCompactions)
	o.Nontrivial = midOverTomb > 0 || coversLogDel > 0
	return nil
}

func propC07(c c07Case, o *Obs) error { return runHistory("C07", c, o, nil) }

func TestC07(t *testing.T) { Run(t, "C07", genC07, propC07) }

// tableNames lists the tables of the handle's view (falls back to tables.list
// when the export shim is unavailable).
func tableNames(st *reftable.Stack, dir string) []string {
	if reftable.VerifExportAvailable {
		return st.VerifTableNames()
	}
	return ReadList(dir)
}
