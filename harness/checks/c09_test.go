package checks

import (
	"fmt"
	"os"
	"strings"
	"testing"
	. "verifharness/hist"

	"github.com/google/reftable"
	"pgregory.net/rapid"
	. "verifharness/evid"
	"verifharness/gen"
)

const (
	sAdd      = iota
	sAddition // NewAddition + Add + Commit
	sCompactAll
	sAutoCompact
	sClean
	sReopen
	sCompactRange // arbitrary contiguous range (export shim): makes handles stale by a compaction below the top table
)

type c09Op struct {
	Kind int   `json:"op"`
	H    int   `json:"h"`
	Txs  []HTx `json:"txs,omitempty"`
	A    int   `json:"a,omitempty"`
	B    int   `json:"b,omitempty"`
	// Overlap (sAddition with >= 2 tables): the last table is written with limits that start AT
	// the previous table's maximum instead of above it; the Addition must refuse it
	Overlap bool `json:"overlap,omitempty"`
}

type c09Case struct {
	Cfg      gen.Cfg `json:"cfg"`
	NHandles int     `json:"handles"`
	Auto     []bool  `json:"auto"`
	Ops      []c09Op `json:"ops"`
}

func genC09(t *rapid.T) c09Case {
	c := c09Case{}
	c.Cfg = DrawStackCfg(t)
	c.Cfg.SkipNameCheck = rapid.Bool().Draw(t, "skipname")
	c.NHandles = rapid.IntRange(2, 4).Draw(t, "handles")
	for i := 0; i < c.NHandles; i++ {
		c.Auto = append(c.Auto, rapid.Bool().Draw(t, "auto"))
	}
	o := TxOpts{Pool: SafePool[:rapid.IntRange(2, 6).Draw(t, "npool")], MaxRefs: 3, MaxLogs: 2,
		HashSize: c.Cfg.HashSize(), Exact: c.Cfg.Exact, DelWeight: 2}
	n := rapid.IntRange(4, 30).Draw(t, "nops")
	for i := 0; i < n; i++ {
		op := c09Op{H: rapid.IntRange(0, c.NHandles-1).Draw(t, "h")}
		k := rapid.IntRange(0, 19).Draw(t, "opK")
		switch {
		case k < 10:
			op.Kind = sAdd
			op.Txs = []HTx{nonEmptyTx(t, o)}
		case k < 12:
			op.Kind = sAddition
			m := rapid.IntRange(1, 3).Draw(t, "ntx")
			for j := 0; j < m; j++ {
				op.Txs = append(op.Txs, nonEmptyTx(t, o))
			}
			op.Overlap = m >= 2 && rapid.IntRange(0, 3).Draw(t, "overlap") == 3
		case k < 13:
			op.Kind = sCompactAll
		case k < 16:
			op.Kind = sCompactRange
			op.A = rapid.IntRange(0, 5).Draw(t, "a")
			op.B = rapid.IntRange(0, 5).Draw(t, "b")
		case k < 17:
			op.Kind = sAutoCompact
		case k < 18:
			op.Kind = sClean
		default:
			op.Kind = sReopen
		}
		c.Ops = append(c.Ops, op)
	}
	return c
}

func nonEmptyTx(t *rapid.T, o TxOpts) HTx {
	tx := DrawTx(t, o)
	if len(tx.Refs)+len(tx.Logs) == 0 {
		tx.Refs = append(tx.Refs, HRef{Name: Str(o.Pool[0]), Kind: gen.KSym, Target: Str(o.Pool[len(o.Pool)-1])})
	}
	return tx
}

// dirState is everything the property calls "the directory": file names and
// the bytes of tables.list.
func dirState(dir string) string {
	b, _ := os.ReadFile(dir + "/tables.list")
	return strings.Join(ListDir(dir), ",") + "|" + string(b)
}

type handle struct {
	st   *reftable.Stack
	snap *Store // the committed state this handle last loaded
}

func propC09(c c09Case, o *Obs) error {
	dir := ScratchDir()
	defer os.RemoveAll(dir)
	cfg := c.Cfg.Config()
	store := NewStore()
	var maxCommitted uint64
	hs := make([]*handle, c.NHandles)
	open := func(i int) error {
		st, err := reftable.NewStack(dir, cfg)
		if err != nil {
			return Failf("C09/open", "NewStack: %v", err)
		}
		st.VerifSetAutoCompact(c.Auto[i])
		hs[i] = &handle{st: st, snap: store.Clone()}
		return nil
	}
	for i := range hs {
		if err := open(i); err != nil {
			return err
		}
	}
	defer func() {
		for _, h := range hs {
			if h != nil {
				h.st.Close()
			}
		}
	}()
	isStale := func(h *handle) bool {
		return h.st.String() != fmt.Sprintf("%v", ReadList(dir))
	}
	staleWrites, staleByAdd, staleByCompact := 0, 0, 0
	lastChange := "" // what made the list change last: "add" or "compact"

	// add runs one Add through handle h and returns its error; on success the model is updated.
	add := func(h *handle, tx HTx) error {
		var refs []gen.Ref
		var logs []gen.Log
		var min, max uint64
		err := h.st.Add(func(w *reftable.Writer) error {
			min = h.st.NextUpdateIndex() + uint64(tx.Gap)
			refs, logs, max = tx.Resolve(min, store, c.Cfg)
			return WriteFn(min, max, refs, logs)(w)
		})
		if err == nil {
			if min <= maxCommitted && maxCommitted != 0 {
				return Failf("C09/index-reuse", "Add succeeded with limits [%d,%d] although index %d is already committed", min, max, maxCommitted)
			}
			store.Apply(refs, NormLogs(logs, c.Cfg))
			if max > maxCommitted {
				maxCommitted = max
			}
			h.snap = store.Clone()
		}
		return err
	}

	for i, op := range c.Ops {
		h := hs[op.H]
		what := fmt.Sprintf("step %d handle %d", i, op.H)
		stale := isStale(h)
		if up, err := h.st.UpToDate(); err != nil || up == stale {
			return Failf("C09/uptodate", "%s: UpToDate() = %v,%v but the handle's tables %s vs tables.list %v", what, up, err, h.st.String(), ReadList(dir))
		}
		beforeDir := dirState(dir)
		beforeList := fmt.Sprintf("%v", ReadList(dir))
		if stale && op.Kind != sReopen {
			staleWrites++
			if lastChange == "add" {
				staleByAdd++
			} else {
				staleByCompact++
			}
		}
		switch op.Kind {
		case sAdd:
			err := add(h, op.Txs[0])
			if stale {
				if err != reftable.ErrLockFailure {
					return Failf("C09/stale-add-result", "%s: Add through a stale handle returned %v, want ErrLockFailure", what, err)
				}
				if d := dirState(dir); d != beforeDir {
					return Failf("C09/stale-add-changed-dir", "%s: failed Add changed the directory:\nbefore %s\nafter  %s", what, beforeDir, d)
				}
				if up, err := h.st.UpToDate(); err != nil || !up {
					return Failf("C09/not-refreshed", "%s: after the failed Add UpToDate() = %v,%v", what, up, err)
				}
				if n := h.st.NextUpdateIndex(); n <= maxCommitted {
					return Failf("C09/next-index", "%s: after the failed Add NextUpdateIndex() = %d, committed max %d", what, n, maxCommitted)
				}
				h.snap = store.Clone()
				if err := CompareView("C09/refreshed-view", what+" (after refresh)", h.st, store); err != nil {
					return err
				}
				if err := add(h, op.Txs[0]); err != nil {
					if _, isV := err.(*Violation); isV {
						return err
					}
					return Failf("C09/retry-failed", "%s: immediate retry after the failed Add returned %v", what, err)
				}
				lastChange = "add"
			} else {
				if err != nil {
					if _, isV := err.(*Violation); isV {
						return err
					}
					return Failf("C09/fresh-add-failed", "%s: Add through an up-to-date handle failed: %v", what, err)
				}
				lastChange = "add"
			}
		case sAddition:
			tr, err := h.st.NewAddition()
			if stale {
				if err != reftable.ErrLockFailure {
					if tr != nil {
						tr.Close()
					}
					return Failf("C09/stale-addition-result", "%s: NewAddition through a stale handle returned %v, want ErrLockFailure", what, err)
				}
				if d := dirState(dir); d != beforeDir {
					return Failf("C09/stale-addition-changed-dir", "%s: failed NewAddition changed the directory:\nbefore %s\nafter  %s", what, beforeDir, d)
				}
				break
			}
			if err != nil {
				return Failf("C09/fresh-addition-failed", "%s: NewAddition through an up-to-date handle failed: %v", what, err)
			}
			next := h.st.NextUpdateIndex()
			tmp := store.Clone()
			var top uint64
			refusedOverlap := false
			for j, tx := range op.Txs {
				min := next + uint64(tx.Gap)
				if op.Overlap && j == len(op.Txs)-1 && j > 0 {
					// update-index ranges of one stack must be strictly increasing: a table that
					// starts at the previous table's maximum has to be refused, and nothing of
					// this Addition may become visible
					min = next - 1
					refs, logs, max := tx.Resolve(min, tmp, c.Cfg)
					err := tr.Add(WriteFn(min, max, refs, logs))
					if err == nil {
						tr.Close()
						return Failf("C09/overlapping-table-accepted", "%s: Addition.Add accepted a table with limits [%d,%d] after a table ending at %d", what, min, max, next-1)
					}
					refusedOverlap = true
					break
				}
				refs, logs, max := tx.Resolve(min, tmp, c.Cfg)
				if err := tr.Add(WriteFn(min, max, refs, logs)); err != nil {
					tr.Close()
					return Failf("C09/addition-add-failed", "%s: Addition.Add: %v", what, err)
				}
				tmp.Apply(refs, NormLogs(logs, c.Cfg))
				next = max + 1
				top = max
			}
			if refusedOverlap {
				tr.Close() // abandoned: the model stays as it was
				if d := dirState(dir); d != beforeDir {
					return Failf("C09/refused-addition-changed-dir", "%s: an Addition whose last table was refused left the directory changed:\nbefore %s\nafter  %s", what, beforeDir, d)
				}
				break
			}
			if err := tr.Commit(); err != nil {
				tr.Close()
				return Failf("C09/commit-failed", "%s: Commit: %v", what, err)
			}
			tr.Close()
			store = tmp
			if top > maxCommitted {
				maxCommitted = top
			}
			h.snap = store.Clone()
			lastChange = "add"
		case sCompactAll, sAutoCompact, sClean, sCompactRange:
			var err error
			switch op.Kind {
			case sCompactRange:
				n := len(tableNames(h.st, dir))
				if n == 0 || !reftable.VerifExportAvailable {
					continue
				}
				first, last := op.A%n, op.B%n
				if first > last {
					first, last = last, first
				}
				var ok bool
				ok, err = h.st.VerifCompactRange(first, last, nil)
				if !stale && err == nil && !ok {
					err = fmt.Errorf("compaction of [%d,%d] reported failure without an error", first, last)
				}
			case sCompactAll:
				if !stale && len(ReadList(dir)) == 0 {
					continue
				}
				if stale && h.st.String() == "[]" {
					continue // CompactAll on a handle that sees no tables is outside the property
				}
				err = h.st.CompactAll(nil)
			case sAutoCompact:
				err = h.st.AutoCompact()
			case sClean:
				if h.st.String() == "[]" && !stale {
					continue // Clean on an empty stack is checked by C16
				}
				err = h.st.Clean()
			}
			if stale {
				// "do nothing or fail": any return value, but nothing may change
				if d := dirState(dir); d != beforeDir {
					return Failf("C09/stale-maintenance-changed-dir", "%s: op %d through a stale handle (err=%v) changed the directory:\nbefore %s\nafter  %s", what, op.Kind, err, beforeDir, d)
				}
			} else {
				if err != nil {
					return Failf("C09/fresh-maintenance-failed", "%s: op %d through an up-to-date handle failed: %v", what, op.Kind, err)
				}
				if fmt.Sprintf("%v", ReadList(dir)) != beforeList {
					lastChange = "compact"
				}
				h.snap = store.Clone()
			}
		case sReopen:
			h.st.Close()
			if err := open(op.H); err != nil {
				return err
			}
			h = hs[op.H]
		}
		if len(ReadList(dir)) == 0 {
			// an emptied stack starts over at update index 1: nothing is left to be ordered against
			maxCommitted = 0
		}
		// every handle shows the committed state it last loaded
		for j, hh := range hs {
			if err := CompareView("C09/snapshot", fmt.Sprintf("%s: view of handle %d", what, j), hh.st, hh.snap); err != nil {
				return err
			}
		}
	}
	fresh, err := reftable.NewStack(dir, cfg)
	if err != nil {
		return Failf("C09/open", "final NewStack: %v", err)
	}
	defer fresh.Close()
	if err := CompareView("C09/fresh", "fresh handle at the end", fresh, store); err != nil {
		return err
	}
	o.Count("stale_writes", staleWrites)
	o.ClassIf(staleByAdd > 0, "stale-by-addition")
	o.ClassIf(staleByCompact > 0, "stale-by-compaction")
	o.Nontrivial = staleWrites > 0
	return nil
}

func TestC09(t *testing.T) { Run(t, "C09", genC09, propC09) }
