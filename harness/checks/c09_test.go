package checks

import (
	"fmt"
	"os"
	"strings"
	"testing"
	. "verifharness/hist"

	"github.com/google/reftable"
	"pgregory.net/rapid"
	. "verifharness/evid"
	"verifharness/gen"
)

const (
	sAdd      = iota
	sAddition // NewAddition + Add + Commit
	sCompactAll
	sAutoCompact
	sClean
	sReopen
	sCompactRange // arbitrary contiguous range (export shim): makes handles stale by a compaction below the top table
	sHold         // NewAddition + Add*, kept open over the following steps: the write lock stays taken
	sRelease      // the held Addition is committed (Commit) or abandoned (Close)
)

type c09Op struct {
	Kind int   `json:"op"`
	H    int   `json:"h"`
	Txs  []HTx `json:"txs,omitempty"`
	A    int   `json:"a,omitempty"`
	B    int   `json:"b,omitempty"`
	// Overlap (sAddition with >= 2 tables): the last table is written with limits that start AT
	// the previous table's maximum instead of above it; the Addition must refuse it
	Overlap bool `json:"overlap,omitempty"`
	// Commit (sRelease): commit the held Addition instead of abandoning it
	Commit bool `json:"commit,omitempty"`
}

type c09Case struct {
	Cfg      gen.Cfg `json:"cfg"`
	NHandles int     `json:"handles"`
	Auto     []bool  `json:"auto"`
	Ops      []c09Op `json:"ops"`
}

func genC09(t *rapid.T) c09Case {
	c := c09Case{}
	c.Cfg = DrawStackCfg(t)
	c.Cfg.SkipNameCheck = rapid.Bool().Draw(t, "skipname")
	c.NHandles = rapid.IntRange(2, 4).Draw(t, "handles")
	for i := 0; i < c.NHandles; i++ {
		c.Auto = append(c.Auto, rapid.Bool().Draw(t, "auto"))
	}
	o := TxOpts{Pool: SafePool[:rapid.IntRange(2, 6).Draw(t, "npool")], MaxRefs: 3, MaxLogs: 2,
		HashSize: c.Cfg.HashSize(), Exact: c.Cfg.Exact, DelWeight: 2}
	n := rapid.IntRange(4, 30).Draw(t, "nops")
	for i := 0; i < n; i++ {
		op := c09Op{H: rapid.IntRange(0, c.NHandles-1).Draw(t, "h")}
		k := rapid.IntRange(0, 23).Draw(t, "opK")
		switch {
		case k == 20 || k == 21:
			op.Kind = sHold
			m := rapid.IntRange(0, 2).Draw(t, "ntx")
			for j := 0; j < m; j++ {
				op.Txs = append(op.Txs, nonEmptyTx(t, o))
			}
		case k >= 22:
			op.Kind = sRelease
			op.Commit = rapid.Bool().Draw(t, "commit")
		case k < 10:
			op.Kind = sAdd
			op.Txs = []HTx{nonEmptyTx(t, o)}
		case k < 12:
			op.Kind = sAddition
			m := rapid.IntRange(1, 3).Draw(t, "ntx")
			for j := 0; j < m; j++ {
				op.Txs = append(op.Txs, nonEmptyTx(t, o))
			}
			op.Overlap = m >= 2 && rapid.IntRange(0, 3).Draw(t, "overlap") == 3
		case k < 13:
			op.Kind = sCompactAll
		case k < 16:
			op.Kind = sCompactRange
			op.A = rapid.IntRange(0, 5).Draw(t, "a")
			op.B = rapid.IntRange(0, 5).Draw(t, "b")
		case k < 17:
			op.Kind = sAutoCompact
		case k < 18:
			op.Kind = sClean
		default:
			op.Kind = sReopen
		}
		c.Ops = append(c.Ops, op)
	}
	return c
}

func nonEmptyTx(t *rapid.T, o TxOpts) HTx {
	tx := DrawTx(t, o)
	if len(tx.Refs)+len(tx.Logs) == 0 {
		tx.Refs = append(tx.Refs, HRef{Name: Str(o.Pool[0]), Kind: gen.KSym, Target: Str(o.Pool[len(o.Pool)-1])})
	}
	return tx
}

// dirState is everything the property calls "the directory": file names and
// the bytes of tables.list.
func dirState(dir string) string {
	b, _ := os.ReadFile(dir + "/tables.list")
	return strings.Join(ListDir(dir), ",") + "|" + string(b)
}

type handle struct {
	st   *reftable.Stack
	snap *Store // the committed state this handle last loaded, as far as the harness knows
	ver  int    // index of snap in the list of committed versions
}

func propC09(c c09Case, o *Obs) error {
	dir := ScratchDir()
	defer os.RemoveAll(dir)
	cfg := c.Cfg.Config()
	store := NewStore()
	var maxCommitted uint64
	hs := make([]*handle, c.NHandles)
	// every committed state so far, oldest first (a compaction commits no new state)
	versions := []*Store{store.Clone()}
	commit := func() { versions = append(versions, store.Clone()) }
	open := func(i int) error {
		st, err := reftable.NewStack(dir, cfg)
		if err != nil {
			return Failf("C09/open", "NewStack: %v", err)
		}
		st.VerifSetAutoCompact(c.Auto[i])
		hs[i] = &handle{st: st, snap: store.Clone(), ver: len(versions) - 1}
		return nil
	}
	for i := range hs {
		if err := open(i); err != nil {
			return err
		}
	}
	defer func() {
		for _, h := range hs {
			if h != nil {
				h.st.Close()
			}
		}
	}()
	isStale := func(h *handle) bool {
		return h.st.String() != fmt.Sprintf("%v", ReadList(dir))
	}
	staleWrites, staleByAdd, staleByCompact := 0, 0, 0
	refreshedElsewhere := 0 // a handle moved to a newer version at a moment the property does not fix
	lastChange := ""        // what made the list change last: "add" or "compact"

	// add runs one Add through handle h and returns its error; on success the model is updated.
	add := func(h *handle, tx HTx) error {
		var refs []gen.Ref
		var logs []gen.Log
		var min, max uint64
		err := h.st.Add(func(w *reftable.Writer) error {
			min = h.st.NextUpdateIndex() + uint64(tx.Gap)
			refs, logs, max = tx.Resolve(min, store, c.Cfg)
			return WriteFn(min, max, refs, logs)(w)
		})
		if err == nil {
			if min <= maxCommitted && maxCommitted != 0 {
				return Failf("C09/index-reuse", "Add succeeded with limits [%d,%d] although index %d is already committed", min, max, maxCommitted)
			}
			store.Apply(refs, NormLogs(logs, c.Cfg))
			if max > maxCommitted {
				maxCommitted = max
			}
			commit()
			h.snap, h.ver = store.Clone(), len(versions)-1
		}
		return err
	}

	// a held Addition: handle `holder` keeps the write lock over several steps
	holder := -1
	var held *reftable.Addition
	var heldStore *Store
	var heldTop uint64
	failedUnderLock := -1 // handle whose Add failed most recently while the lock was held
	var failedTx HTx
	heldSteps, addsUnderLock := 0, 0
	release := func(what string, doCommit bool) error {
		hh := hs[holder]
		if doCommit {
			if err := held.Commit(); err != nil {
				held.Close()
				return Failf("C09/held-commit-failed", "%s: Commit of an Addition that held the lock throughout: %v", what, err)
			}
			held.Close()
			if heldTop != 0 {
				store = heldStore
				if heldTop > maxCommitted {
					maxCommitted = heldTop
				}
				commit()
				lastChange = "add"
			}
			hh.snap, hh.ver = store.Clone(), len(versions)-1
			failedUnderLock = -1
		} else {
			before := fmt.Sprintf("%v", ReadList(dir))
			held.Close()
			if after := fmt.Sprintf("%v", ReadList(dir)); after != before {
				return Failf("C09/abandon-changed-list", "%s: abandoning an Addition changed tables.list from %s to %s", what, before, after)
			}
		}
		holder, held = -1, nil
		if !doCommit && failedUnderLock >= 0 {
			// the Add that failed only because the lock was taken: the handle was refreshed then,
			// nothing has been committed since, so its retry must succeed now
			fh := hs[failedUnderLock]
			failedUnderLock = -1
			if err := add(fh, failedTx); err != nil {
				if _, isV := err.(*Violation); isV {
					return err
				}
				return Failf("C09/retry-after-lock-released", "%s: retry of an Add that had failed while another handle held the lock (which was then given back without a commit) returned %v", what, err)
			}
			lastChange = "add"
		}
		return nil
	}
	defer func() {
		if held != nil {
			held.Close()
		}
	}()

	for i, op := range c.Ops {
		h := hs[op.H]
		what := fmt.Sprintf("step %d handle %d", i, op.H)
		if op.Kind == sRelease {
			if holder < 0 {
				continue
			}
			if err := release(what, op.Commit); err != nil {
				return err
			}
		} else if holder >= 0 {
			heldSteps++
			if op.H == holder || op.Kind == sHold {
				continue // the holder does nothing else while its Addition is open
			}
			stale := isStale(h)
			beforeDir := dirState(dir)
			switch op.Kind {
			case sAdd:
				addsUnderLock++
				err := add(h, op.Txs[0])
				if err != reftable.ErrLockFailure {
					return Failf("C09/add-under-foreign-lock", "%s: Add while another handle holds the write lock returned %v, want ErrLockFailure", what, err)
				}
				if d := dirState(dir); d != beforeDir {
					return Failf("C09/failed-add-changed-dir", "%s: Add that failed on the held lock changed the directory:\nbefore %s\nafter  %s", what, beforeDir, d)
				}
				// "After a failed Add the handle has been refreshed to the current list"
				if up, err := h.st.UpToDate(); err != nil || !up {
					return Failf("C09/not-refreshed", "%s: after an Add that failed on a held lock (handle was stale: %v) UpToDate() = %v,%v", what, stale, up, err)
				}
				h.snap, h.ver = store.Clone(), len(versions)-1
				if err := CompareView("C09/refreshed-view", what+" (after the Add that failed on the held lock)", h.st, store); err != nil {
					return err
				}
				failedUnderLock, failedTx = op.H, op.Txs[0]
			case sAddition:
				tr, err := h.st.NewAddition()
				if err != reftable.ErrLockFailure {
					if tr != nil {
						tr.Close()
					}
					return Failf("C09/addition-under-foreign-lock", "%s: NewAddition while another handle holds the write lock returned %v, want ErrLockFailure", what, err)
				}
				if d := dirState(dir); d != beforeDir {
					return Failf("C09/failed-addition-changed-dir", "%s: NewAddition that failed on the held lock changed the directory:\nbefore %s\nafter  %s", what, beforeDir, d)
				}
			case sCompactAll, sAutoCompact, sClean, sCompactRange:
				var err error
				switch op.Kind {
				case sCompactRange:
					n := len(tableNames(h.st, dir))
					if n == 0 || !reftable.VerifExportAvailable {
						continue
					}
					first, last := op.A%n, op.B%n
					if first > last {
						first, last = last, first
					}
					_, err = h.st.VerifCompactRange(first, last, nil)
				case sCompactAll:
					if h.st.String() == "[]" {
						continue
					}
					err = h.st.CompactAll(nil)
				case sAutoCompact:
					err = h.st.AutoCompact()
				case sClean:
					if h.st.String() == "[]" {
						continue
					}
					err = h.st.Clean()
				}
				if err != nil && err != reftable.ErrLockFailure && !stale {
					return Failf("C09/maintenance-under-foreign-lock", "%s: op %d through an up-to-date handle while another handle holds the write lock returned %v (only lock contention may fail)", what, op.Kind, err)
				}
				if d := dirState(dir); d != beforeDir {
					return Failf("C09/maintenance-under-lock-changed-dir", "%s: op %d while another handle holds the write lock (err=%v) changed the directory:\nbefore %s\nafter  %s", what, op.Kind, err, beforeDir, d)
				}
			case sReopen:
				h.st.Close()
				if err := open(op.H); err != nil {
					return err
				}
			}
		} else {
			stale := isStale(h)
			if up, err := h.st.UpToDate(); err != nil || up == stale {
				return Failf("C09/uptodate", "%s: UpToDate() = %v,%v but the handle's tables %s vs tables.list %v", what, up, err, h.st.String(), ReadList(dir))
			}
			beforeDir := dirState(dir)
			beforeList := fmt.Sprintf("%v", ReadList(dir))
			if stale && op.Kind != sReopen {
				staleWrites++
				if lastChange == "add" {
					staleByAdd++
				} else {
					staleByCompact++
				}
			}
			switch op.Kind {
			case sAdd:
				err := add(h, op.Txs[0])
				if stale {
					if err != reftable.ErrLockFailure {
						return Failf("C09/stale-add-result", "%s: Add through a stale handle returned %v, want ErrLockFailure", what, err)
					}
					if d := dirState(dir); d != beforeDir {
						return Failf("C09/stale-add-changed-dir", "%s: failed Add changed the directory:\nbefore %s\nafter  %s", what, beforeDir, d)
					}
					if up, err := h.st.UpToDate(); err != nil || !up {
						return Failf("C09/not-refreshed", "%s: after the failed Add UpToDate() = %v,%v", what, up, err)
					}
					if n := h.st.NextUpdateIndex(); n <= maxCommitted {
						return Failf("C09/next-index", "%s: after the failed Add NextUpdateIndex() = %d, committed max %d", what, n, maxCommitted)
					}
					h.snap, h.ver = store.Clone(), len(versions)-1
					if err := CompareView("C09/refreshed-view", what+" (after refresh)", h.st, store); err != nil {
						return err
					}
					if err := add(h, op.Txs[0]); err != nil {
						if _, isV := err.(*Violation); isV {
							return err
						}
						return Failf("C09/retry-failed", "%s: immediate retry after the failed Add returned %v", what, err)
					}
					lastChange = "add"
				} else {
					if err != nil {
						if _, isV := err.(*Violation); isV {
							return err
						}
						return Failf("C09/fresh-add-failed", "%s: Add through an up-to-date handle failed: %v", what, err)
					}
					lastChange = "add"
				}
			case sAddition:
				tr, err := h.st.NewAddition()
				if stale {
					if err != reftable.ErrLockFailure {
						if tr != nil {
							tr.Close()
						}
						return Failf("C09/stale-addition-result", "%s: NewAddition through a stale handle returned %v, want ErrLockFailure", what, err)
					}
					if d := dirState(dir); d != beforeDir {
						return Failf("C09/stale-addition-changed-dir", "%s: failed NewAddition changed the directory:\nbefore %s\nafter  %s", what, beforeDir, d)
					}
					break
				}
				if err != nil {
					return Failf("C09/fresh-addition-failed", "%s: NewAddition through an up-to-date handle failed: %v", what, err)
				}
				next := h.st.NextUpdateIndex()
				tmp := store.Clone()
				var top uint64
				refusedOverlap := false
				for j, tx := range op.Txs {
					min := next + uint64(tx.Gap)
					if op.Overlap && j == len(op.Txs)-1 && j > 0 {
						// update-index ranges of one stack must be strictly increasing: a table that
						// starts at the previous table's maximum has to be refused, and nothing of
						// this Addition may become visible
						min = next - 1
						refs, logs, max := tx.Resolve(min, tmp, c.Cfg)
						err := tr.Add(WriteFn(min, max, refs, logs))
						if err == nil {
							tr.Close()
							return Failf("C09/overlapping-table-accepted", "%s: Addition.Add accepted a table with limits [%d,%d] after a table ending at %d", what, min, max, next-1)
						}
						refusedOverlap = true
						break
					}
					refs, logs, max := tx.Resolve(min, tmp, c.Cfg)
					if err := tr.Add(WriteFn(min, max, refs, logs)); err != nil {
						tr.Close()
						return Failf("C09/addition-add-failed", "%s: Addition.Add: %v", what, err)
					}
					tmp.Apply(refs, NormLogs(logs, c.Cfg))
					next = max + 1
					top = max
				}
				if refusedOverlap {
					tr.Close() // abandoned: the model stays as it was
					if d := dirState(dir); d != beforeDir {
						return Failf("C09/refused-addition-changed-dir", "%s: an Addition whose last table was refused left the directory changed:\nbefore %s\nafter  %s", what, beforeDir, d)
					}
					break
				}
				if err := tr.Commit(); err != nil {
					tr.Close()
					return Failf("C09/commit-failed", "%s: Commit: %v", what, err)
				}
				tr.Close()
				store = tmp
				if top > maxCommitted {
					maxCommitted = top
				}
				commit()
				h.snap, h.ver = store.Clone(), len(versions)-1
				lastChange = "add"
			case sCompactAll, sAutoCompact, sClean, sCompactRange:
				var err error
				switch op.Kind {
				case sCompactRange:
					n := len(tableNames(h.st, dir))
					if n == 0 || !reftable.VerifExportAvailable {
						continue
					}
					first, last := op.A%n, op.B%n
					if first > last {
						first, last = last, first
					}
					var ok bool
					ok, err = h.st.VerifCompactRange(first, last, nil)
					if !stale && err == nil && !ok {
						err = fmt.Errorf("compaction of [%d,%d] reported failure without an error", first, last)
					}
				case sCompactAll:
					if !stale && len(ReadList(dir)) == 0 {
						continue
					}
					if stale && h.st.String() == "[]" {
						continue // CompactAll on a handle that sees no tables is outside the property
					}
					err = h.st.CompactAll(nil)
				case sAutoCompact:
					err = h.st.AutoCompact()
				case sClean:
					if h.st.String() == "[]" && !stale {
						continue // Clean on an empty stack is checked by C16
					}
					err = h.st.Clean()
				}
				if stale {
					// "do nothing or fail": any return value, but nothing may change
					if d := dirState(dir); d != beforeDir {
						return Failf("C09/stale-maintenance-changed-dir", "%s: op %d through a stale handle (err=%v) changed the directory:\nbefore %s\nafter  %s", what, op.Kind, err, beforeDir, d)
					}
				} else {
					if err != nil {
						return Failf("C09/fresh-maintenance-failed", "%s: op %d through an up-to-date handle failed: %v", what, op.Kind, err)
					}
					if fmt.Sprintf("%v", ReadList(dir)) != beforeList {
						lastChange = "compact"
					}
					h.snap, h.ver = store.Clone(), len(versions)-1
				}
			case sReopen:
				h.st.Close()
				if err := open(op.H); err != nil {
					return err
				}
				h = hs[op.H]
			case sHold:
				tr, err := h.st.NewAddition()
				if stale {
					if err != reftable.ErrLockFailure {
						if tr != nil {
							tr.Close()
						}
						return Failf("C09/stale-addition-result", "%s: NewAddition through a stale handle returned %v, want ErrLockFailure", what, err)
					}
					if d := dirState(dir); d != beforeDir {
						return Failf("C09/stale-addition-changed-dir", "%s: failed NewAddition changed the directory:\nbefore %s\nafter  %s", what, beforeDir, d)
					}
					break
				}
				if err != nil {
					return Failf("C09/fresh-addition-failed", "%s: NewAddition through an up-to-date handle failed: %v", what, err)
				}
				next := h.st.NextUpdateIndex()
				heldStore, heldTop = store.Clone(), 0
				for _, tx := range op.Txs {
					min := next + uint64(tx.Gap)
					refs, logs, max := tx.Resolve(min, heldStore, c.Cfg)
					if err := tr.Add(WriteFn(min, max, refs, logs)); err != nil {
						tr.Close()
						return Failf("C09/addition-add-failed", "%s: Addition.Add: %v", what, err)
					}
					heldStore.Apply(refs, NormLogs(logs, c.Cfg))
					next, heldTop = max+1, max
				}
				holder, held = op.H, tr
				failedUnderLock = -1
			}
		}
		if len(ReadList(dir)) == 0 {
			// an emptied stack starts over at update index 1: nothing is left to be ordered against
			maxCommitted = 0
		}
		// every handle shows one committed state, and never an older one than it showed before.
		// Where the property fixes the moment of a refresh (open, successful Add, failed Add)
		// the blocks above compared with that exact state; a handle may refresh at other
		// moments too (nothing forbids a failed NewAddition or a refused Clean to reload), so
		// here any committed version from the last known one onwards is accepted.
		for j, hh := range hs {
			refs, logs, err := ViewOf(hh.st)
			if err != nil {
				return Failf("C09/snapshot/read-error", "%s: view of handle %d: reading the stack failed: %v", what, j, err)
			}
			found := -1
			for v := hh.ver; v < len(versions); v++ {
				if DiffRefs(refs, versions[v].SortedRefs()) == "" && DiffLogs(logs, versions[v].SortedLogs()) == "" {
					found = v
					break
				}
			}
			if found < 0 {
				d := DiffRefs(refs, hh.snap.SortedRefs())
				if d == "" {
					d = DiffLogs(logs, hh.snap.SortedLogs())
				}
				return Failf("C09/snapshot/view", "%s: view of handle %d is none of the %d committed states from the one it last loaded onwards; against that one: %s", what, j, len(versions)-hh.ver, d)
			}
			if found != hh.ver {
				hh.ver, hh.snap = found, versions[found]
				refreshedElsewhere++
			}
		}
	}
	if holder >= 0 {
		if err := release("end of the history", len(c.Ops)%2 == 0); err != nil {
			return err
		}
	}
	fresh, err := reftable.NewStack(dir, cfg)
	if err != nil {
		return Failf("C09/open", "final NewStack: %v", err)
	}
	defer fresh.Close()
	if err := CompareView("C09/fresh", "fresh handle at the end", fresh, store); err != nil {
		return err
	}
	o.Count("stale_writes", staleWrites)
	o.Count("steps_under_a_held_lock", heldSteps)
	o.ClassIf(addsUnderLock > 0, "add-while-another-handle-holds-the-lock")
	o.ClassIf(refreshedElsewhere > 0, "handle-refreshed-by-a-failed-NewAddition-or-maintenance")
	o.ClassIf(staleByAdd > 0, "stale-by-addition")
	o.ClassIf(staleByCompact > 0, "stale-by-compaction")
	o.Nontrivial = staleWrites > 0
	return nil
}

func TestC09(t *testing.T) { Run(t, "C09", genC09, propC09) }
