package checks

import (
	"os"
	"path/filepath"
	"testing"
	. "verifharness/hist"

	"github.com/google/reftable"
	"pgregory.net/rapid"
	. "verifharness/evid"
	"verifharness/gen"
)

type c01Case struct {
	Table   gen.TableSpec `json:"table"`
	ViaFile bool          `json:"via_file,omitempty"`
}

func genC01(t *rapid.T) c01Case {
	c := c01Case{}
	c.Table = gen.DrawTable(t, gen.TableOpts{MaxRefs: 150, MaxLogs: 40, SmallBlocks: rapid.Bool().Draw(t, "small")})
	c.ViaFile = rapid.IntRange(0, 7).Draw(t, "viaFile") == 0
	return c
}

// propC01: what was written is exactly what a full scan returns.
func propC01(c c01Case, o *Obs) error {
	spec := c.Table
	data, st, rejected, err := WriteTable(spec)
	if rejected {
		o.Rejected()
		return nil
	}
	if err != nil {
		return Failf("C01/write-error", "writer refused an in-domain table: %v", err)
	}
	ShapeClasses(o, spec, st)
	var src reftable.BlockSource = &reftable.ByteBlockSource{Source: data}
	if c.ViaFile {
		d := ScratchDir()
		defer os.RemoveAll(d)
		fn := filepath.Join(d, "t.ref")
		if err := os.WriteFile(fn, data, 0644); err != nil {
			panic(err)
		}
		src, err = reftable.NewFileBlockSource(fn)
		if err != nil {
			return Failf("C01/open", "NewFileBlockSource: %v", err)
		}
		o.Class("file-backed")
	}
	rd, err := reftable.NewReader(src, "t")
	if err != nil {
		return Failf("C01/open", "NewReader: %v", err)
	}
	defer rd.Close()
	if rd.MinUpdateIndex() != spec.Min || rd.MaxUpdateIndex() != spec.Max {
		return Failf("C01/limits", "limits read back as [%d,%d], written [%d,%d]", rd.MinUpdateIndex(), rd.MaxUpdateIndex(), spec.Min, spec.Max)
	}
	refs, err := AllRefs(rd)
	if err != nil {
		return Failf("C01/ref-scan-error", "ref scan: %v", err)
	}
	if d := DiffRefs(refs, spec.Refs); d != "" {
		return Failf("C01/ref-mismatch", "%s", d)
	}
	logs, err := AllLogs(rd)
	if err != nil {
		return Failf("C01/log-scan-error", "log scan: %v", err)
	}
	if d := DiffLogs(logs, NormLogs(spec.Logs, spec.Cfg)); d != "" {
		return Failf("C01/log-mismatch", "%s", d)
	}
	n := len(spec.Refs) + len(spec.Logs)
	hasDel := false
	for _, r := range spec.Refs {
		hasDel = hasDel || r.Kind == gen.KDel
	}
	o.Nontrivial = n >= 2 && (st.Blocks > 1 || hasDel || len(spec.Logs) > 0)
	return nil
}

func TestC01(t *testing.T) { Run(t, "C01", genC01, propC01) }
