package checks

import (
	"fmt"
	"os"
	"path/filepath"
	"testing"
	. "verifharness/hist"

	"github.com/google/reftable"
	"pgregory.net/rapid"
	. "verifharness/evid"
	"verifharness/gen"
	"verifharness/specdec"
)

type c01Case struct {
	Table   gen.TableSpec `json:"table"`
	ViaFile bool          `json:"via_file,omitempty"`
	// Bulk: the refs are generated programmatically (restart-cap shape)
	Bulk *gen.Bulk `json:"bulk,omitempty"`
	// NoisyBig: big blocks filled by one incompressible log record each (class statistics only)
	NoisyBig bool `json:"noisy_big,omitempty"`
}

// drawBulk: one huge block with more records than the 65535 restart points a block can hold.
func drawBulk(t *rapid.T) (gen.TableSpec, *gen.Bulk) {
	cfg := gen.Cfg{BlockSize: 1 << 20, RestartInterval: rapid.SampledFrom([]int{1, 1, 2}).Draw(t, "bulkRI"),
		Unaligned: rapid.Bool().Draw(t, "bulkUnaligned"), Hash: rapid.IntRange(0, 2).Draw(t, "bulkHash"), SkipIndexObjects: true}
	b := &gen.Bulk{N: rapid.SampledFrom([]int{65534, 65535, 65536, 65537, 65600, 70000}).Draw(t, "bulkN"),
		Kind: rapid.SampledFrom([]int{gen.KDel, gen.KSym}).Draw(t, "bulkKind")}
	if cfg.RestartInterval == 2 {
		b.N = 70000
		cfg.BlockSize = 1<<21 - 1
	}
	return gen.TableSpec{Cfg: cfg, Min: 5, Max: 5}, b
}

// drawBig: large blocks and records comparable in size to them, so that blocks end early
// and are padded by many kilobytes (or, unaligned, follow each other at odd offsets).
func drawBig(t *rapid.T) (gen.TableSpec, *gen.Bulk) {
	bs := rapid.SampledFrom([]int{8192, 16384, 32768}).Draw(t, "bigBS")
	cfg := gen.Cfg{BlockSize: uint32(bs), RestartInterval: rapid.SampledFrom([]int{0, 1, 3}).Draw(t, "bigRI"),
		Unaligned: rapid.IntRange(0, 3).Draw(t, "bigUnaligned") == 3, Hash: rapid.IntRange(0, 2).Draw(t, "bigHash"),
		SkipIndexObjects: rapid.Bool().Draw(t, "bigSkip")}
	b := &gen.Bulk{}
	n := rapid.IntRange(2, 9).Draw(t, "bigN")
	for i := 0; i < n; i++ {
		switch rapid.IntRange(0, 3).Draw(t, "bigKind") {
		case 0:
			b.Lens = append(b.Lens, 0)
		case 1:
			b.Lens = append(b.Lens, rapid.IntRange(1, 300).Draw(t, "bigSmall"))
		default:
			b.Lens = append(b.Lens, rapid.IntRange(bs/4, bs-120).Draw(t, "bigLen"))
		}
	}
	return gen.TableSpec{Cfg: cfg, Min: 2, Max: 2}, b
}

// drawNoisyBig: log blocks of 17 KiB .. 256 KiB holding one incompressible record each that
// fills the block to within 0..40 bytes: the deflated form of such a block is longer than the
// block (5 bytes per 16 KiB of stored data plus the zlib envelope), more data follows it, and
// the reader has to fetch the excess.
func drawNoisyBig(t *rapid.T) gen.TableSpec {
	bs := rapid.SampledFrom([]int{17000, 20000, 32768, 33000, 40000, 49152, 65536, 70000, 100000, 131072, 262144}).Draw(t, "noisyBS")
	cfg := gen.Cfg{BlockSize: uint32(bs), RestartInterval: rapid.SampledFrom([]int{0, 1, 16}).Draw(t, "noisyRI"),
		Unaligned: rapid.IntRange(0, 3).Draw(t, "noisyUnaligned") == 3, Hash: rapid.IntRange(0, 2).Draw(t, "noisyHash"),
		SkipIndexObjects: rapid.Bool().Draw(t, "noisySkip"), Exact: rapid.Bool().Draw(t, "noisyExact")}
	spec := gen.TableSpec{Cfg: cfg, Min: 3, Max: 9}
	hs := cfg.HashSize()
	for i := 0; i < rapid.IntRange(0, 3).Draw(t, "noisyRefs"); i++ {
		spec.Refs = append(spec.Refs, gen.Ref{Name: Str(fmt.Sprintf("refs/heads/b%d", i)), Idx: 4, Kind: gen.KVal, Val: bytesOf(byte(i+1), hs)})
	}
	n := rapid.IntRange(1, 3).Draw(t, "noisyLogs")
	for i := 0; i < n; i++ {
		name := fmt.Sprintf("refs/heads/n%d", i)
		if l, ok := gen.DrawBigFillingLog(t, name, uint64(rapid.IntRange(3, 9).Draw(t, "noisyIdx")), hs, bs, cfg.Exact, rapid.IntRange(0, 40).Draw(t, "noisySlack")); ok {
			spec.Logs = append(spec.Logs, l)
		}
		if rapid.Bool().Draw(t, "noisySmallBetween") {
			spec.Logs = append(spec.Logs, gen.Log{Name: Str(name + "x"), Idx: 5, Old: bytesOf(1, hs), New: bytesOf(2, hs), Who: "w", Email: "e", Time: 9, Msg: "m\n"})
		}
	}
	spec.Logs = gen.SortLogs(spec.Logs)
	return spec
}

func genC01(t *rapid.T) c01Case {
	c := c01Case{}
	c.Table = gen.DrawTable(t, gen.TableOpts{MaxRefs: 150, MaxLogs: 40, SmallBlocks: rapid.Bool().Draw(t, "small")})
	c.ViaFile = rapid.IntRange(0, 7).Draw(t, "viaFile") == 0
	if rapid.IntRange(0, 199).Draw(t, "bulk") == 77 {
		c.Table, c.Bulk = drawBulk(t)
	}
	if rapid.IntRange(0, 49).Draw(t, "big") == 23 {
		c.Table, c.Bulk = drawBig(t)
	}
	if rapid.IntRange(0, 59).Draw(t, "noisyBig") == 31 {
		c.Table, c.Bulk = drawNoisyBig(t), nil
		c.NoisyBig = true
	}
	return c
}

// propC01: what was written is exactly what a full scan returns.
func propC01(c c01Case, o *Obs) error {
	spec := c.Table
	if c.Bulk != nil {
		spec.Refs = c.Bulk.Expand(spec.Min)
		o.ClassIf(len(c.Bulk.Lens) == 0, "bulk-restart-cap")
		o.ClassIf(len(c.Bulk.Lens) > 0, "big-records-in-big-blocks")
	}
	data, st, rejected, err := WriteTable(spec)
	if rejected {
		o.Rejected()
		return nil
	}
	if err != nil {
		return Failf("C01/write-error", "writer refused an in-domain table: %v", err)
	}
	ShapeClasses(o, spec, st)
	if c.NoisyBig {
		o.Class("big-incompressible-log-blocks")
		for _, b := range specdec.Decode(data, spec.Cfg.HashSize(), !spec.Cfg.Unaligned).Blocks {
			if b.Type == 'g' && b.Occupied > uint64(spec.Cfg.EffBlockSize()) {
				o.Class("big-log-stream-longer-than-block")
				break
			}
		}
	}
	var src reftable.BlockSource = &reftable.ByteBlockSource{Source: data}
	if c.ViaFile {
		d := ScratchDir()
		defer os.RemoveAll(d)
		fn := filepath.Join(d, "t.ref")
		if err := os.WriteFile(fn, data, 0644); err != nil {
			panic(err)
		}
		src, err = reftable.NewFileBlockSource(fn)
		if err != nil {
			return Failf("C01/open", "NewFileBlockSource: %v", err)
		}
		o.Class("file-backed")
	}
	rd, err := reftable.NewReader(src, "t")
	if err != nil {
		return Failf("C01/open", "NewReader: %v", err)
	}
	defer rd.Close()
	if rd.MinUpdateIndex() != spec.Min || rd.MaxUpdateIndex() != spec.Max {
		return Failf("C01/limits", "limits read back as [%d,%d], written [%d,%d]", rd.MinUpdateIndex(), rd.MaxUpdateIndex(), spec.Min, spec.Max)
	}
	refs, err := AllRefs(rd)
	if err != nil {
		return Failf("C01/ref-scan-error", "ref scan: %v", err)
	}
	if d := DiffRefs(refs, spec.Refs); d != "" {
		return Failf("C01/ref-mismatch", "%s", d)
	}
	logs, err := AllLogs(rd)
	if err != nil {
		return Failf("C01/log-scan-error", "log scan: %v", err)
	}
	if d := DiffLogs(logs, NormLogs(spec.Logs, spec.Cfg)); d != "" {
		return Failf("C01/log-mismatch", "%s", d)
	}
	if c.Bulk != nil && len(c.Bulk.Lens) == 0 {
		// seeks across the point where the block runs out of restart points
		for _, i := range []int{0, 1, 65533, 65534, 65535, 65536, 65537, len(spec.Refs) - 1} {
			if i >= len(spec.Refs) {
				continue
			}
			rec, err := reftable.ReadRef(rd, string(spec.Refs[i].Name))
			if err != nil || rec == nil || !gen.RefOf(rec).Equal(spec.Refs[i]) {
				return Failf("C01/bulk-seek", "ReadRef of record #%d (%q) in a block with %d records: got %v, %v", i, string(spec.Refs[i].Name), len(spec.Refs), rec, err)
			}
		}
	}
	n := len(spec.Refs) + len(spec.Logs)
	hasDel := false
	for _, r := range spec.Refs {
		hasDel = hasDel || r.Kind == gen.KDel
	}
	o.Nontrivial = n >= 2 && (st.Blocks > 1 || hasDel || len(spec.Logs) > 0)
	return nil
}

func TestC01(t *testing.T) { Run(t, "C01", genC01, propC01) }
