package checks

import (
	"path/filepath"

	"github.com/google/reftable"
	"verifharness/gen"
	"verifharness/model"
)

// Tracker mirrors, table by table, what the stack directory must contain:
// for every table named in the handle's view it knows the records that the
// table has to hold (the transaction written by Add, or the raw overlay of the
// inputs of a compaction).  It identifies new tables by the update-index
// limits in their header, not by their file name.
type Tracked struct {
	Name string
	T    model.Table
}

type TrackEvent struct {
	Name     string    // new table ("" when the inputs vanished without an output)
	IsAdd    bool      // the table written by the transaction
	Inputs   []Tracked // compaction inputs, oldest first
	First    int       // position of the first input in the old stack
	Expected model.Table
	// MayDropTombstones: the range started at the oldest table
	MayDropTombstones bool
	Below             []Tracked // tables beneath the compacted range
}

type Tracker struct {
	Dir    string
	Tabs   []Tracked
	Broken bool // tracking lost (e.g. table headers unreadable): classification only
}

func headerLimits(dir, name string) (min, max uint64, ok bool) {
	bs, err := reftable.NewFileBlockSource(filepath.Join(dir, name))
	if err != nil {
		return 0, 0, false
	}
	r, err := reftable.NewReader(bs, name)
	if err != nil {
		bs.Close()
		return 0, 0, false
	}
	defer r.Close()
	return r.MinUpdateIndex(), r.MaxUpdateIndex(), true
}

// Update reconciles the mirror with the names now in the handle's view.
// pending is the table a just-committed transaction must have produced.
func (tr *Tracker) Update(names []string, pending *model.Table) []TrackEvent {
	if tr.Broken {
		return nil
	}
	old := append([]Tracked{}, tr.Tabs...)
	if pending != nil {
		old = append(old, Tracked{Name: "", T: *pending})
	}
	byName := map[string]int{}
	for i, t := range old {
		if t.Name != "" {
			byName[t.Name] = i
		}
	}
	used := make([]bool, len(old))
	var events []TrackEvent
	var out []Tracked
	for _, n := range names {
		if i, ok := byName[n]; ok {
			used[i] = true
			out = append(out, old[i])
			continue
		}
		min, max, ok := headerLimits(tr.Dir, n)
		if !ok {
			tr.Broken = true
			return nil
		}
		var inputs []Tracked
		first := -1
		for i, t := range old {
			if used[i] {
				continue
			}
			if _, known := byName[t.Name]; known && contains(names, t.Name) {
				continue
			}
			if t.T.Min >= min && t.T.Max <= max {
				if first < 0 {
					first = i
				}
				inputs = append(inputs, t)
				used[i] = true
			}
		}
		if len(inputs) == 0 {
			tr.Broken = true
			return nil
		}
		ev := TrackEvent{Name: n, Inputs: inputs, First: first, Below: append([]Tracked{}, old[:first]...)}
		if len(inputs) == 1 && inputs[0].Name == "" {
			ev.IsAdd = true
			ev.Expected = inputs[0].T
		} else {
			var ms []model.Table
			for _, in := range inputs {
				ms = append(ms, in.T)
			}
			ev.Expected = model.Table{Min: inputs[0].T.Min, Max: inputs[len(inputs)-1].T.Max,
				Refs: model.OverlayRefs(ms, false), Logs: model.OverlayLogs(ms, false)}
			ev.MayDropTombstones = first == 0
		}
		events = append(events, ev)
		out = append(out, Tracked{Name: n, T: ev.Expected})
	}
	// inputs that vanished without an output (everything cancelled out)
	var vanished []Tracked
	vfirst := -1
	for i, t := range old {
		if !used[i] {
			if vfirst < 0 {
				vfirst = i
			}
			vanished = append(vanished, t)
		}
	}
	if len(vanished) > 0 {
		var ms []model.Table
		for _, in := range vanished {
			ms = append(ms, in.T)
		}
		events = append(events, TrackEvent{Name: "", Inputs: vanished, First: vfirst, MayDropTombstones: vfirst == 0,
			Below:    append([]Tracked{}, old[:vfirst]...),
			Expected: model.Table{Refs: model.OverlayRefs(ms, false), Logs: model.OverlayLogs(ms, false)}})
	}
	tr.Tabs = out
	return events
}

func contains(ss []string, s string) bool {
	for _, x := range ss {
		if x == s {
			return true
		}
	}
	return false
}

// tombstoneOverOlder reports whether the event compacted a tombstone whose
// key still has a record in a table beneath the range.
func (ev TrackEvent) tombstoneOverOlder() bool {
	if ev.IsAdd || ev.First == 0 {
		return false
	}
	below := map[string]bool{}
	for _, b := range ev.Below {
		for _, r := range b.T.Refs {
			below["r"+string(r.Name)] = true
		}
		for _, l := range b.T.Logs {
			below["l"+l.Key()] = true
		}
	}
	for _, r := range ev.Expected.Refs {
		if r.Kind == gen.KDel && below["r"+string(r.Name)] {
			return true
		}
	}
	for _, l := range ev.Expected.Logs {
		if l.Del && below["l"+l.Key()] {
			return true
		}
	}
	return false
}

func (ev TrackEvent) coversLogDeletion() bool {
	if ev.IsAdd {
		return false
	}
	for _, in := range ev.Inputs {
		for _, l := range in.T.Logs {
			if l.Del {
				return true
			}
		}
	}
	return false
}
