package hist

import (
	"bytes"
	"fmt"
	"math"
	"os"
	"path/filepath"
	"sync/atomic"

	"github.com/google/reftable"
	. "verifharness/evid"
	"verifharness/gen"
)

// WriteTable runs the writer over a table description.  rejected is true when
// the writer legitimately refused a record (too large for the block).
func WriteTable(spec gen.TableSpec) (data []byte, stats *reftable.Stats, rejected bool, err error) {
	buf := &bytes.Buffer{}
	cfg := spec.Cfg.Config()
	w, err := reftable.NewWriter(buf, &cfg)
	if err != nil {
		return nil, nil, false, fmt.Errorf("NewWriter: %v", err)
	}
	w.SetLimits(spec.Min, spec.Max)
	for _, r := range spec.Refs {
		if err := w.AddRef(r.Record()); err != nil {
			return nil, nil, isTooLarge(err), fmt.Errorf("AddRef(%v): %v", r, err)
		}
	}
	for _, l := range spec.Logs {
		if err := w.AddLog(l.Record()); err != nil {
			return nil, nil, isTooLarge(err), fmt.Errorf("AddLog(%v): %v", l, err)
		}
	}
	err = w.Close()
	if err == reftable.ErrEmptyTable {
		if len(spec.Refs)+len(spec.Logs) != 0 {
			return nil, nil, false, fmt.Errorf("ErrEmptyTable for %d refs %d logs", len(spec.Refs), len(spec.Logs))
		}
		err = nil
	}
	if err != nil {
		return nil, nil, isTooLarge(err), fmt.Errorf("Close: %v", err)
	}
	return buf.Bytes(), &w.Stats, false, nil
}

func isTooLarge(err error) bool {
	return err != nil && bytes.Contains([]byte(err.Error()), []byte("too large for block size"))
}

const scanLimit = 1 << 20

// ScanRefs iterates it to exhaustion.
func ScanRefs(it *reftable.Iterator) ([]gen.Ref, error) {
	var out []gen.Ref
	for {
		var rec reftable.RefRecord
		ok, err := it.NextRef(&rec)
		if err != nil {
			return out, err
		}
		if !ok {
			return out, nil
		}
		out = append(out, gen.RefOf(&rec))
		if len(out) > scanLimit {
			return out, fmt.Errorf("iterator does not terminate")
		}
	}
}

func ScanLogs(it *reftable.Iterator) ([]gen.Log, error) {
	var out []gen.Log
	for {
		var rec reftable.LogRecord
		ok, err := it.NextLog(&rec)
		if err != nil {
			return out, err
		}
		if !ok {
			return out, nil
		}
		out = append(out, gen.LogOf(&rec))
		if len(out) > scanLimit {
			return out, fmt.Errorf("iterator does not terminate")
		}
	}
}

func AllRefs(tab reftable.Table) ([]gen.Ref, error) {
	it, err := tab.SeekRef("")
	if err != nil {
		return nil, fmt.Errorf("SeekRef(\"\"): %v", err)
	}
	return ScanRefs(it)
}

func AllLogs(tab reftable.Table) ([]gen.Log, error) {
	it, err := tab.SeekLog("", math.MaxUint64)
	if err != nil {
		return nil, fmt.Errorf("SeekLog(\"\",max): %v", err)
	}
	return ScanLogs(it)
}

// DiffRefs compares two sequences exactly; "" means equal.
func DiffRefs(got, want []gen.Ref) string {
	for i := 0; i < len(got) || i < len(want); i++ {
		switch {
		case i >= len(got):
			return fmt.Sprintf("missing record #%d %v (got %d records, want %d)", i, want[i], len(got), len(want))
		case i >= len(want):
			return fmt.Sprintf("extra record #%d %v (got %d records, want %d)", i, got[i], len(got), len(want))
		case !got[i].Equal(want[i]):
			return fmt.Sprintf("record #%d: got %v want %v (got %d records, want %d)", i, got[i], want[i], len(got), len(want))
		}
	}
	return ""
}

func DiffLogs(got, want []gen.Log) string {
	for i := 0; i < len(got) || i < len(want); i++ {
		switch {
		case i >= len(got):
			return fmt.Sprintf("missing log #%d %v (got %d, want %d)", i, want[i], len(got), len(want))
		case i >= len(want):
			return fmt.Sprintf("extra log #%d %v (got %d, want %d)", i, got[i], len(got), len(want))
		case !got[i].Equal(want[i]):
			return fmt.Sprintf("log #%d: got %v want %v (got %d, want %d)", i, got[i], want[i], len(got), len(want))
		}
	}
	return ""
}

// NormLogs applies the documented normalisation to the expected logs.
func NormLogs(ls []gen.Log, cfg gen.Cfg) []gen.Log {
	out := make([]gen.Log, len(ls))
	for i, l := range ls {
		out[i] = l.Norm(cfg.HashSize(), cfg.Exact)
	}
	return out
}

var dirCounter int64

// ScratchDir returns a fresh directory on tmpfs (removed by the caller).
func ScratchDir() string {
	base := os.Getenv("VERIF_SHM")
	if base == "" {
		base = os.TempDir()
	}
	n := atomic.AddInt64(&dirCounter, 1)
	d := filepath.Join(base, fmt.Sprintf("case-%d-%d", os.Getpid(), n))
	os.RemoveAll(d)
	if err := os.MkdirAll(d, 0755); err != nil {
		panic(err)
	}
	return d
}

// Shape describes the layout the writer chose, for the class distribution.
func ShapeClasses(o *Obs, spec gen.TableSpec, st *reftable.Stats) {
	if st == nil {
		return
	}
	o.ClassIf(len(spec.Refs) > 0 && len(spec.Logs) == 0, "refs-only")
	o.ClassIf(len(spec.Refs) == 0 && len(spec.Logs) > 0, "logs-only")
	o.ClassIf(len(spec.Refs) > 0 && len(spec.Logs) > 0, "refs+logs")
	o.ClassIf(len(spec.Refs) == 0 && len(spec.Logs) == 0, "empty")
	o.Class(fmt.Sprintf("refidx-depth-%d", st.RefStats.MaxIndexLevel))
	if st.LogStats.Blocks > 0 {
		o.Class(fmt.Sprintf("logidx-depth-%d", st.LogStats.MaxIndexLevel))
	}
	o.ClassIf(st.ObjStats.Blocks > 0, "objsection")
	o.ClassIf(st.ObjStats.Blocks > 1, "objsection-multiblock")
	o.ClassIf(st.ObjStats.IndexBlocks > 0, "objsection-indexed")
	o.ClassIf(st.RefStats.Blocks > 1, "refblocks>1")
	o.ClassIf(st.LogStats.Blocks > 1, "logblocks>1")
	o.ClassIf(spec.Cfg.Unaligned, "unaligned")
	o.ClassIf(spec.Cfg.Hash == 2, "sha256")
	o.ClassIf(spec.Cfg.Exact, "exactmsg")
	for _, r := range spec.Refs {
		if r.Kind == gen.KDel {
			o.Class("has-ref-deletion")
			break
		}
	}
	for _, l := range spec.Logs {
		if l.Del {
			o.Class("has-log-deletion")
			break
		}
	}
}
