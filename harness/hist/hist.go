package hist

// Shared machinery for sequential stack histories (C07, C09, C12, C13, C14, C17):
// serialisable operations, a generator for transactions over a small name
// pool, and a map-based model of the stack.

import (
	"fmt"
	"os"
	"sort"
	"strings"

	"github.com/google/reftable"
	"pgregory.net/rapid"
	. "verifharness/evid"
	"verifharness/gen"
	"verifharness/model"
)

// HRef is one ref record of a transaction.
type HRef struct {
	Name   Str `json:"n"`
	Kind   int `json:"k"`
	Val    Hex `json:"v,omitempty"`
	Peeled Hex `json:"p,omitempty"`
	Target Str `json:"t,omitempty"`
	Off    int `json:"off,omitempty"` // update index = min + Off mod (wide+1)
}

// HLog is one log record of a transaction.  Sel >= 0 addresses the
// (Sel mod n)-th existing log entry of the model (to overwrite or delete it);
// Sel < 0 writes a new entry for Name at min + Off mod (wide+1).
type HLog struct {
	Name  Str    `json:"n"`
	Sel   int    `json:"sel"`
	Off   int    `json:"off,omitempty"`
	Abs   uint64 `json:"abs,omitempty"` // absolute update index (overrides Off) when > 0
	Del   bool   `json:"del,omitempty"`
	Old   Hex    `json:"old,omitempty"`
	New   Hex    `json:"new,omitempty"`
	Who   Str    `json:"who,omitempty"`
	Email Str    `json:"email,omitempty"`
	Time  uint64 `json:"time,omitempty"`
	TZ    int16  `json:"tz,omitempty"`
	Msg   Str    `json:"msg,omitempty"`
}

type HTx struct {
	Wide int    `json:"wide,omitempty"` // limits [next, next+Wide]
	Gap  int    `json:"gap,omitempty"`  // limits start at next+Gap
	Refs []HRef `json:"refs,omitempty"`
	Logs []HLog `json:"logs,omitempty"`
}

// Store is the reference model of a stack: what a reader must see.
type Store struct {
	Refs map[string]gen.Ref
	Logs map[string]gen.Log
}

func NewStore() *Store { return &Store{Refs: map[string]gen.Ref{}, Logs: map[string]gen.Log{}} }

func (s *Store) Clone() *Store {
	c := NewStore()
	for k, v := range s.Refs {
		c.Refs[k] = v
	}
	for k, v := range s.Logs {
		c.Logs[k] = v
	}
	return c
}

func (s *Store) SortedRefs() []gen.Ref {
	out := make([]gen.Ref, 0, len(s.Refs))
	for _, r := range s.Refs {
		out = append(out, r)
	}
	sort.Slice(out, func(i, j int) bool { return out[i].Name < out[j].Name })
	return out
}

func (s *Store) SortedLogs() []gen.Log {
	out := make([]gen.Log, 0, len(s.Logs))
	for _, l := range s.Logs {
		out = append(out, l)
	}
	sort.Slice(out, func(i, j int) bool { return out[i].Key() < out[j].Key() })
	return out
}

func (s *Store) LogKeys() []string {
	out := make([]string, 0, len(s.Logs))
	for k := range s.Logs {
		out = append(out, k)
	}
	sort.Strings(out)
	return out
}

// Apply commits the records of one written table.
func (s *Store) Apply(refs []gen.Ref, logs []gen.Log) {
	for _, r := range refs {
		if r.Kind == gen.KDel {
			delete(s.Refs, string(r.Name))
		} else {
			s.Refs[string(r.Name)] = r
		}
	}
	for _, l := range logs {
		if l.Del {
			delete(s.Logs, l.Key())
		} else {
			s.Logs[l.Key()] = l
		}
	}
}

// Resolve turns a transaction description into concrete sorted records for
// limits starting at min, against the current model state.
func (tx HTx) Resolve(min uint64, s *Store, cfg gen.Cfg) (refs []gen.Ref, logs []gen.Log, max uint64) {
	max = min + uint64(tx.Wide)
	for _, hr := range tx.Refs {
		r := gen.Ref{Name: hr.Name, Kind: hr.Kind, Idx: min + uint64(hr.Off%(tx.Wide+1))}
		switch hr.Kind {
		case gen.KVal:
			r.Val = hr.Val
		case gen.KPeeled:
			r.Val, r.Peeled = hr.Val, hr.Peeled
		case gen.KSym:
			r.Target = hr.Target
		}
		refs = append(refs, r)
	}
	refs = gen.SortRefs(refs)
	keys := s.LogKeys()
	for _, hl := range tx.Logs {
		l := gen.Log{Name: hl.Name, Idx: min + uint64(hl.Off%(tx.Wide+1)), Del: hl.Del}
		if hl.Abs > 0 {
			l.Idx = hl.Abs
		}
		if hl.Sel >= 0 && len(keys) > 0 {
			old := s.Logs[keys[hl.Sel%len(keys)]]
			l.Name, l.Idx = old.Name, old.Idx
		}
		if !l.Del {
			l.Old, l.New, l.Who, l.Email, l.Time, l.TZ, l.Msg = hl.Old, hl.New, hl.Who, hl.Email, hl.Time, hl.TZ, hl.Msg
			if l.Old == nil && l.New == nil && l.Who == "" && l.Email == "" && l.Time == 0 && l.TZ == 0 && l.Msg == "" {
				l.Del = true
			}
		}
		logs = append(logs, l)
	}
	logs = gen.SortLogs(logs)
	return refs, logs, max
}

// WriteFn returns the callback handed to Stack.Add / Addition.Add.
func WriteFn(min, max uint64, refs []gen.Ref, logs []gen.Log) func(w *reftable.Writer) error {
	return func(w *reftable.Writer) error {
		w.SetLimits(min, max)
		for _, r := range refs {
			if err := w.AddRef(r.Record()); err != nil {
				return err
			}
		}
		for _, l := range logs {
			if err := w.AddLog(l.Record()); err != nil {
				return err
			}
		}
		return nil
	}
}

// conflict-free pool: no name is a directory prefix of another, all valid.
var SafePool = []string{"HEAD", "refs/heads/main", "refs/heads/dev", "refs/heads/a", "refs/heads/ab", "refs/tags/v1",
	"refs/tags/v1.0", "refs/remotes/origin/main", "refs/x", "refs/heads/feature-long-name-0123456789"}

// TxOpts steers DrawTx.
type TxOpts struct {
	Pool      []string
	MaxRefs   int
	MaxLogs   int
	HashSize  int
	Exact     bool
	DelWeight int // 0..: how often a ref record is a deletion (out of 10)
	TimeMax   int
}

var txHashes = [][]byte{}

func PoolHash(t *rapid.T, hs int) []byte {
	h := make([]byte, hs)
	v := rapid.IntRange(0, 5).Draw(t, "h")
	for i := range h {
		h[i] = byte(v*37 + 1)
	}
	h[hs-1] = byte(rapid.IntRange(0, 2).Draw(t, "hl"))
	return h
}

func DrawTx(t *rapid.T, o TxOpts) HTx {
	tx := HTx{}
	if rapid.IntRange(0, 4).Draw(t, "wideK") == 0 {
		tx.Wide = rapid.IntRange(1, 3).Draw(t, "wide")
	}
	if rapid.IntRange(0, 9).Draw(t, "gapK") == 0 {
		tx.Gap = rapid.IntRange(1, 3).Draw(t, "gap")
	}
	nr := rapid.IntRange(0, o.MaxRefs).Draw(t, "nrefs")
	for i := 0; i < nr; i++ {
		r := HRef{Name: Str(rapid.SampledFrom(o.Pool).Draw(t, "name")), Off: rapid.IntRange(0, 3).Draw(t, "off")}
		k := rapid.IntRange(0, 9).Draw(t, "kindK")
		switch {
		case k < o.DelWeight:
			r.Kind = gen.KDel
		case k < 7:
			r.Kind = gen.KVal
			r.Val = PoolHash(t, o.HashSize)
		case k < 9:
			r.Kind = gen.KPeeled
			r.Val = PoolHash(t, o.HashSize)
			r.Peeled = PoolHash(t, o.HashSize)
		default:
			r.Kind = gen.KSym
			r.Target = Str(rapid.SampledFrom(o.Pool).Draw(t, "target"))
		}
		tx.Refs = append(tx.Refs, r)
	}
	nl := rapid.IntRange(0, o.MaxLogs).Draw(t, "nlogs")
	for i := 0; i < nl; i++ {
		l := HLog{Name: Str(rapid.SampledFrom(o.Pool).Draw(t, "lname")), Sel: -1, Off: rapid.IntRange(0, 3).Draw(t, "loff")}
		switch rapid.IntRange(0, 5).Draw(t, "lkind") {
		case 0: // delete an existing entry
			l.Sel = rapid.IntRange(0, 1000).Draw(t, "sel")
			l.Del = true
		case 1: // overwrite an existing entry
			l.Sel = rapid.IntRange(0, 1000).Draw(t, "sel")
		}
		if !l.Del {
			if rapid.IntRange(0, 4).Draw(t, "oldNil") != 0 {
				l.Old = PoolHash(t, o.HashSize)
			}
			if rapid.IntRange(0, 4).Draw(t, "newNil") != 0 {
				l.New = PoolHash(t, o.HashSize)
			}
			l.Who = Str(rapid.SampledFrom([]string{"", "A U Thor", "c"}).Draw(t, "who"))
			l.Email = Str(rapid.SampledFrom([]string{"", "a@example.com"}).Draw(t, "email"))
			tm := o.TimeMax
			if tm == 0 {
				tm = 40
			}
			l.Time = uint64(rapid.IntRange(0, tm).Draw(t, "time"))
			l.TZ = int16(rapid.IntRange(-2, 2).Draw(t, "tz") * 60)
			if o.Exact {
				l.Msg = Str(rapid.SampledFrom([]string{"m", "update", "x\n", "", "two\nlines", " lead", "trail \n\n"}).Draw(t, "msg"))
			} else {
				l.Msg = Str(rapid.SampledFrom([]string{"m", "update", "x\n", "", " lead", "trail ", "tab\t\n"}).Draw(t, "msg"))
			}
		}
		tx.Logs = append(tx.Logs, l)
	}
	return tx
}

// DrawStackCfg draws a configuration suitable for stack histories: blocks are
// large enough for every pooled record.
func DrawStackCfg(t *rapid.T) gen.Cfg {
	cfg := gen.DrawCfg(t)
	if cfg.BlockSize != 0 && cfg.BlockSize < 256 {
		cfg.BlockSize = 256
	}
	if cfg.BlockSize > 70000 {
		cfg.BlockSize = 4096
	}
	return cfg
}

// ViewOf reads everything a handle shows.
func ViewOf(st *reftable.Stack) (refs []gen.Ref, logs []gen.Log, err error) {
	m := st.Merged()
	if m == nil {
		return nil, nil, fmt.Errorf("Merged() is nil")
	}
	refs, err = AllRefs(m)
	if err != nil {
		return nil, nil, err
	}
	logs, err = AllLogs(m)
	return refs, logs, err
}

// CompareView checks a handle against the model.
func CompareView(sig, what string, st *reftable.Stack, s *Store) error {
	refs, logs, err := ViewOf(st)
	if err != nil {
		return Failf(sig+"/read-error", "%s: reading the stack failed: %v", what, err)
	}
	if d := DiffRefs(refs, s.SortedRefs()); d != "" {
		return Failf(sig+"/ref-view", "%s: refs differ from the model: %s", what, d)
	}
	if d := DiffLogs(logs, s.SortedLogs()); d != "" {
		return Failf(sig+"/log-view", "%s: logs differ from the model: %s", what, d)
	}
	return nil
}

// ListDir returns the sorted directory listing.
func ListDir(dir string) []string {
	es, err := os.ReadDir(dir)
	if err != nil {
		return nil
	}
	var out []string
	for _, e := range es {
		out = append(out, e.Name())
	}
	sort.Strings(out)
	return out
}

// ReadList returns the names in tables.list ("" content and missing file both give nil).
func ReadList(dir string) []string {
	b, err := os.ReadFile(dir + "/tables.list")
	if err != nil {
		return nil
	}
	var out []string
	for _, l := range strings.Split(string(b), "\n") {
		if l != "" {
			out = append(out, l)
		}
	}
	return out
}

// CheckNoResidue: directory holds exactly tables.list and the tables it names.
func CheckNoResidue(sig, dir string) error {
	names := ReadList(dir)
	want := map[string]bool{}
	for _, n := range names {
		want[n] = true
	}
	for _, f := range ListDir(dir) {
		if f == "tables.list" {
			continue
		}
		if !want[f] {
			return Failf(sig+"/residue", "unexpected file %q left in the stack directory (list: %v, dir: %v)", f, names, ListDir(dir))
		}
		delete(want, f)
	}
	for n := range want {
		return Failf(sig+"/missing-table", "tables.list names %q which does not exist (dir: %v)", n, ListDir(dir))
	}
	return nil
}

var _ = model.Expire
