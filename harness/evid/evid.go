// Package evid collects what a check actually explored (evaluations, distinct
// non-trivial cases, class distribution, samples) and runs one property over
// generated cases, a replayed JSON case, or both.  Everything random is a
// rapid draw; the recorder only counts.
package evid

import (
	"encoding/hex"
	"encoding/json"
	"fmt"
	"hash/fnv"
	"os"
	"path/filepath"
	"runtime/debug"
	"sort"
	"strings"
	"sync"
	"testing"
	"unicode/utf8"

	"pgregory.net/rapid"
)

// Str is a byte string that survives a JSON round trip unchanged ("s:..." when
// printable ASCII, "x:<hex>" otherwise).
type Str string

func (s Str) MarshalJSON() ([]byte, error) {
	printable := true
	for i := 0; i < len(s); i++ {
		if s[i] < 0x20 || s[i] > 0x7e {
			printable = false
			break
		}
	}
	if printable && utf8.ValidString(string(s)) {
		return json.Marshal("s:" + string(s))
	}
	return json.Marshal("x:" + hex.EncodeToString([]byte(s)))
}

func (s *Str) UnmarshalJSON(b []byte) error {
	var v string
	if err := json.Unmarshal(b, &v); err != nil {
		return err
	}
	switch {
	case strings.HasPrefix(v, "s:"):
		*s = Str(v[2:])
	case strings.HasPrefix(v, "x:"):
		d, err := hex.DecodeString(v[2:])
		if err != nil {
			return err
		}
		*s = Str(d)
	default:
		return fmt.Errorf("bad Str %q", v)
	}
	return nil
}

// Hex is a byte slice written as hex in JSON; nil stays nil ("").
type Hex []byte

func (h Hex) MarshalJSON() ([]byte, error) {
	if h == nil {
		return []byte("null"), nil
	}
	return json.Marshal(hex.EncodeToString(h))
}

func (h *Hex) UnmarshalJSON(b []byte) error {
	if string(b) == "null" {
		*h = nil
		return nil
	}
	var v string
	if err := json.Unmarshal(b, &v); err != nil {
		return err
	}
	d, err := hex.DecodeString(v)
	if err != nil {
		return err
	}
	if d == nil {
		d = []byte{}
	}
	*h = d
	return nil
}

// Violation is what a property returns when it does not hold for a case.
type Violation struct {
	Sig string // machine signature (class of failure), used for known findings
	Msg string
}

func (v *Violation) Error() string { return v.Sig + ": " + v.Msg }

// Failf builds a violation.
func Failf(sig, format string, args ...interface{}) error {
	return &Violation{Sig: sig, Msg: fmt.Sprintf(format, args...)}
}

// Obs is filled by the property for each case.
type Obs struct {
	Nontrivial bool
	classes    []string
	// Extra counters (e.g. number of seeks, crash runs) added to the totals.
	counts map[string]int
	// Sub-evaluations: when one generated case stands for several executions
	// (crash points, schedules), the property reports them here.
	Evals int
	// extra distinct non-trivial sub-cases (hash keys) of this case
	subKeys  []string
	rejected bool
}

func (o *Obs) Class(names ...string) { o.classes = append(o.classes, names...) }
func (o *Obs) ClassIf(c bool, name string) {
	if c {
		o.classes = append(o.classes, name)
	}
}
func (o *Obs) Count(name string, n int) {
	if o.counts == nil {
		o.counts = map[string]int{}
	}
	o.counts[name] += n
}

// Sub registers a distinct non-trivial sub-execution (e.g. "crash at k").
func (o *Obs) Sub(key string) { o.subKeys = append(o.subKeys, key) }

// Rejected marks the case as legitimately rejected by the code under test
// (e.g. record too large for the block); it counts as an evaluation but not
// as non-trivial.
func (o *Obs) Rejected() { o.rejected = true }

type violationOut struct {
	Sig    string          `json:"sig"`
	Msg    string          `json:"msg"`
	Case   json.RawMessage `json:"case"`
	Known  bool            `json:"known"`
	Replay bool            `json:"replay,omitempty"`
}

type statsOut struct {
	ID          string                 `json:"id"`
	Evaluations int                    `json:"evaluations"`
	Cases       int                    `json:"cases"`
	Hashes      []string               `json:"hashes"`
	Classes     map[string]int         `json:"classes"`
	Counts      map[string]int         `json:"counts"`
	Samples     []json.RawMessage      `json:"samples"`
	Violations  []violationOut         `json:"violations"`
	KnownHits   map[string]int         `json:"known_hits"`
	Rejected    int                    `json:"rejected"`
	Completed   bool                   `json:"completed"`
	Extra       map[string]interface{} `json:"extra,omitempty"`
}

// Recorder accumulates one test's statistics.
type Recorder struct {
	mu         sync.Mutex
	id         string
	evals      int
	cases      int
	rejected   int
	hashes     map[uint64]struct{}
	classes    map[string]int
	counts     map[string]int
	samples    []json.RawMessage
	viols      []violationOut
	knownHits  map[string]int
	known      map[string]bool
	failed     bool
	extra      map[string]interface{}
	maxSamples int
}

func NewRecorder(id string) *Recorder {
	r := &Recorder{id: id, hashes: map[uint64]struct{}{}, classes: map[string]int{}, counts: map[string]int{},
		knownHits: map[string]int{}, known: map[string]bool{}, extra: map[string]interface{}{}, maxSamples: 3}
	for _, s := range strings.Split(os.Getenv("VERIF_KNOWN"), "\n") {
		s = strings.TrimSpace(s)
		if s != "" {
			r.known[s] = true
		}
	}
	return r
}

// AddEnumerated accounts for executions of an exhaustive enumeration: evals
// executions, of which distinct were non-trivial (distinct by construction).
func (r *Recorder) AddEnumerated(evals, distinct int) {
	r.mu.Lock()
	defer r.mu.Unlock()
	r.evals += evals
	n, _ := r.extra["distinct_extra"].(int)
	r.extra["distinct_extra"] = n + distinct
}

// AddSample appends a sample case (any JSON-serialisable value).
func (r *Recorder) AddSample(v interface{}) {
	b, err := json.Marshal(v)
	if err != nil {
		return
	}
	r.mu.Lock()
	defer r.mu.Unlock()
	if len(r.samples) < r.maxSamples+2 {
		r.samples = append(r.samples, b)
	}
}

// Violate records a violation found outside rapid (enumerations).
func (r *Recorder) Violate(sig, msg string, c interface{}) {
	b, _ := json.Marshal(c)
	r.mu.Lock()
	defer r.mu.Unlock()
	r.viols = append(r.viols, violationOut{Sig: sig, Msg: msg, Case: b})
}

func (r *Recorder) Known(sig string) bool { return r.known[sig] }

func (r *Recorder) SetExtra(k string, v interface{}) {
	r.mu.Lock()
	defer r.mu.Unlock()
	r.extra[k] = v
}

func hash64(b []byte) uint64 {
	h := fnv.New64a()
	h.Write(b)
	return h.Sum64()
}

func (r *Recorder) record(js []byte, o *Obs) {
	r.mu.Lock()
	defer r.mu.Unlock()
	if r.failed {
		return // shrinking phase: not counted
	}
	r.cases++
	if o.Evals > 0 {
		r.evals += o.Evals
	} else {
		r.evals++
	}
	if o.rejected {
		r.rejected++
	}
	for _, c := range o.classes {
		r.classes[c]++
	}
	for k, n := range o.counts {
		r.counts[k] += n
	}
	if o.Nontrivial && !o.rejected {
		h := hash64(js)
		if len(o.subKeys) == 0 {
			r.hashes[h] = struct{}{}
		} else {
			for _, k := range o.subKeys {
				r.hashes[hash64(append([]byte(k+"|"), js...))] = struct{}{}
			}
		}
		if len(r.samples) < r.maxSamples && len(js) < 6000 {
			r.samples = append(r.samples, json.RawMessage(js))
		}
	}
}

// Flush writes the statistics file named by VERIF_STATS (if set).
func (r *Recorder) Flush(completed bool) {
	r.mu.Lock()
	defer r.mu.Unlock()
	path := os.Getenv("VERIF_STATS")
	if path == "" {
		return
	}
	out := statsOut{ID: r.id, Evaluations: r.evals, Cases: r.cases, Classes: r.classes, Counts: r.counts,
		Samples: r.samples, Violations: r.viols, KnownHits: r.knownHits, Rejected: r.rejected, Completed: completed, Extra: r.extra}
	for h := range r.hashes {
		out.Hashes = append(out.Hashes, fmt.Sprintf("%016x", h))
	}
	sort.Strings(out.Hashes)
	b, _ := json.Marshal(out)
	tmp := path + ".tmp"
	if err := os.WriteFile(tmp, b, 0644); err == nil {
		os.Rename(tmp, path)
	}
}

// safely runs prop, turning a panic of the code under test into a violation.
func safely[C any](prop func(C, *Obs) error, c C, o *Obs) (err error) {
	defer func() {
		if p := recover(); p != nil {
			st := string(debug.Stack())
			// keep the interesting part of the stack short
			lines := strings.Split(st, "\n")
			if len(lines) > 40 {
				lines = lines[:40]
			}
			err = &Violation{Sig: "panic", Msg: fmt.Sprintf("panic: %v\n%s", p, strings.Join(lines, "\n"))}
		}
	}()
	return prop(c, o)
}

// Run drives one property: replay of VERIF_REPLAY if set, otherwise
// rapid.Check over gen.  prop must be a pure function of the case.
func Run[C any](t *testing.T, id string, gen func(*rapid.T) C, prop func(C, *Obs) error) {
	rec := NewRecorder(id)
	RunWith(t, rec, gen, prop)
}

func RunWith[C any](t *testing.T, rec *Recorder, gen func(*rapid.T) C, prop func(C, *Obs) error) {
	id := rec.id
	if rp := os.Getenv("VERIF_REPLAY"); rp != "" {
		b, err := os.ReadFile(rp)
		if err != nil {
			t.Fatalf("replay: %v", err)
		}
		// accept either a bare case or a violation record {"case":...}
		var wrap struct {
			Case json.RawMessage `json:"case"`
		}
		if json.Unmarshal(b, &wrap) == nil && len(wrap.Case) > 0 {
			b = wrap.Case
		}
		var c C
		if err := json.Unmarshal(b, &c); err != nil {
			t.Fatalf("replay: cannot decode case: %v", err)
		}
		o := &Obs{}
		err = safely(prop, c, o)
		rec.record(b, o)
		if err != nil {
			v := toViolation(err)
			rec.viols = append(rec.viols, violationOut{Sig: v.Sig, Msg: v.Msg, Case: b, Replay: true})
			rec.Flush(true)
			t.Fatalf("REPLAY-FAIL %s: %v", id, err)
		}
		rec.Flush(true)
		t.Logf("replay of %s passed", rp)
		return
	}

	// replay tier: saved (shrunk) cases of earlier findings run first, bypassing rapid
	if dir := os.Getenv("VERIF_REGRESS"); dir != "" && os.Getenv("VERIF_SHARD") == "0" || os.Getenv("VERIF_SHARD") == "" && dir != "" {
		files, _ := filepath.Glob(filepath.Join(dir, id+"-*.json"))
		sort.Strings(files)
		for _, f := range files {
			b, err := os.ReadFile(f)
			if err != nil {
				continue
			}
			var wrap struct {
				Case json.RawMessage `json:"case"`
			}
			if json.Unmarshal(b, &wrap) != nil || len(wrap.Case) == 0 {
				continue
			}
			var c C
			if err := json.Unmarshal(wrap.Case, &c); err != nil {
				continue // case format changed: not a verdict
			}
			o := &Obs{}
			err = safely(prop, c, o)
			rec.mu.Lock()
			rec.counts["regression_cases_replayed"]++
			rec.mu.Unlock()
			if err != nil {
				v := toViolation(err)
				if rec.known[v.Sig] {
					rec.knownHits[v.Sig]++
					continue
				}
				rec.viols = append(rec.viols, violationOut{Sig: v.Sig, Msg: "regression case " + filepath.Base(f) + ": " + v.Msg, Case: wrap.Case})
				rec.Flush(false)
				t.Fatalf("%s violated by regression case %s: %v", id, f, err)
			}
		}
	}

	var lastFail *violationOut
	completed := false
	defer func() {
		if lastFail != nil {
			rec.mu.Lock()
			rec.viols = append(rec.viols, *lastFail)
			rec.mu.Unlock()
		}
		rec.Flush(completed)
	}()

	// A hang costs a full watchdog period per attempt and leaves a spinning
	// goroutine behind, so such a failure is reported as found, not shrunk:
	// every later attempt returns at once and the first failing case is kept.
	stopShrinking := false
	rapid.Check(t, func(rt *rapid.T) {
		if stopShrinking {
			return
		}
		c := gen(rt)
		js, jerr := json.Marshal(c)
		if jerr != nil {
			panic("case not serialisable: " + jerr.Error())
		}
		o := &Obs{}
		err := safely(prop, c, o)
		if err != nil {
			v := toViolation(err)
			if rec.known[v.Sig] {
				rec.mu.Lock()
				rec.knownHits[v.Sig]++
				rec.mu.Unlock()
				o.Nontrivial = false
				rec.record(js, o)
				return
			}
			rec.record(js, o)
			rec.mu.Lock()
			rec.failed = true
			rec.mu.Unlock()
			lastFail = &violationOut{Sig: v.Sig, Msg: v.Msg, Case: js}
			if strings.HasSuffix(v.Sig, "/hang") {
				stopShrinking = true
			}
			rt.Fatalf("%s violated: %v", id, err)
		}
		rec.record(js, o)
	})
	completed = true
}

func toViolation(err error) *Violation {
	if v, ok := err.(*Violation); ok {
		return v
	}
	return &Violation{Sig: "error", Msg: err.Error()}
}
