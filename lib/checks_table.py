# Per-check configuration for ./run.  Case counts bound each tier; a time limit
# hit is INCONCLUSIVE (exit 2), never a violation.

def P(checks, shards=1, timeout=600, **kw):
    d = {"checks": checks, "shards": shards, "timeout": timeout}
    d.update(kw)
    return d

CHECKS = {}

def C(pid, test, quick, thorough, rule, technique, level_text, level_note, assumptions,
      pkg="checks", flavour="plain", level="exploration", **kw):
    d = {"pkg": pkg, "test": test, "flavour": flavour, "level": level, "quick": quick, "thorough": thorough,
         "rule": rule, "technique": technique, "level_text": level_text, "level_note": level_note,
         "assumptions": assumptions}
    d.update(kw)
    CHECKS[pid] = d

DOMAIN = "inputs are in the writer's documented domain (ascending keys, NUL-free non-empty names, hashes of the configured size, ref update indices inside the limits, record fits an empty block)"
BOUNDED = "Shows absence of counterexamples only within the explored cases; nothing is proved."

C("C01", "TestC01", P(3000), P(20000, 16, 1500),
  rule="rapid-generated (config, limits, sorted refs, sorted logs; names with shared stems, multi-byte UTF-8 and 0x01/0x7f/0xff bytes, lengths up to 3000; update-index deltas around the varint size boundaries; a rare 'bulk' shape of 65534..70000 tiny records in one block to pass the 65535-restart cap; in 1/50 of the cases a 'big' shape: block sizes 8192..32768 with 2..9 records most of which are symrefs whose target is a quarter block to almost a block long, so that blocks end early and are padded by kilobytes); written with Writer, read back with a full scan through ByteBlockSource or a file; "
       "non-trivial = >=2 records and (more than one block, or a deletion record, or a log section); distinct = hash of the case JSON",
  technique="property-based testing (rapid): write/read round-trip against the generated record lists",
  level_text="Generated-input search: thousands of generated tables over all configuration fields are written and scanned back; exact equality with the generated records (every field, order, count). " + BOUNDED,
  level_note="Trusts the generator's reading of the writer's documented domain; nothing else.",
  assumptions=[DOMAIN])

C("C02", "TestC02", P(1200), P(8000, 16, 1500),
  rule="rapid-generated tables biased to many small blocks (index depth 0..3+), plus the bulk and big-record shapes of C01; for every stored key its predecessor/successor/prefix neighbours, '', beyond-last and drawn keys are sought "
       "(refs: SeekRef+ReadRef; logs: SeekLog+ReadLogAt at idx in {stored, +-1, 0, max}); oracle = suffix of the generated sorted list; "
       "non-trivial = the sought section has >=2 blocks and >=2 records; distinct = hash of the case JSON",
  technique="property-based testing (rapid): seek result vs. suffix of the generated list (metamorphic: seek == suffix of scan)",
  level_text="Generated-input search over tables and every key class the table induces; each seek is compared with the suffix of the input list. " + BOUNDED,
  level_note="Trusts the generator's domain and the harness's own key order (byte-wise name order; log key = name NUL complemented big-endian index).",
  assumptions=[DOMAIN])

C("C03", "TestC03", P(1000), P(6000, 16, 1500),
  rule="rapid-generated stacks of 1..6 tables with increasing disjoint limits over a shared pool of 2..12 names and a shared range of log indices (updates, re-creations, deletions, same key in 3+ tables; a fifth of the tables with incompressible block-filling log records whose deflated blocks are longer than the block size); "
       "raw NewMerged and NewStack on a hand-assembled directory; full scans and all seek key classes of C02 compared with a newest-wins overlay model; "
       "non-trivial = >=2 tables share a key and a deletion shadows an older record; distinct = hash of the case JSON",
  technique="property-based testing (rapid): merged views vs. a newest-wins overlay reference model",
  level_text="Generated-input search over stacks of tables; both views are compared record for record with a map-based overlay model, for scans and seeks. " + BOUNDED,
  level_note="Trusts the single-table writer/reader only as far as C01/C02 establish them; the overlay model is 20 lines of map logic.",
  assumptions=[DOMAIN, "tables of one stack have strictly increasing, non-overlapping update-index limits and one hash id (precondition of NewMerged)"])

C("C11", "TestC11", P(4000), P(20000, 16, 1500),
  rule="rapid-generated single tables (hash pools of 1..200 ids, peeled values, object index on/off, single/multi-block/indexed object section, truncated position lists, min update index > 0) "
       "and stacks of 1..5 tables (raw NewMerged and NewStack view) where refs are deleted or re-pointed in newer tables, half of the stacks drawn with 256-byte blocks and 6+ names so that most tables carry an object index (a newer indexed table that has no entry for an id an older table points at); queries = every id in the case, near-miss ids sharing a prefix, zero/ff ids, drawn ids; "
       "oracle = filter of the generated refs (stack: overlay) by value/peeled == id, compared in order with all fields, and with ReadRef of each name; "
       "non-trivial = (table with an object section, or stack with a shadowed hit) and >=1 query with hits; distinct = hash of the case JSON",
  technique="property-based testing (rapid): RefsFor vs. filtering the generated refs / overlay model",
  level_text="Generated-input search over tables, stacks and object ids; results compared exactly with a filter over the reference model. " + BOUNDED,
  level_note="Trusts the generator's domain; the oracle is a three-line filter over the overlay model.",
  assumptions=[DOMAIN, "queried object ids have the table's hash size"])

C("C07", "TestC07", P(500), P(4000, 16, 1500),
  rule="rapid-generated histories of 5..40 steps on one directory: transactions over a conflict-free pool (creates, updates, deletes, symrefs, log appends, overwrites and deletions of existing log entries, limits [next,next] or wider, gaps), "
       "CompactAll, AutoCompact, compaction of arbitrary contiguous ranges, reopen, a second read-only handle; auto-compaction after Add on/off; all write configurations; in a sixth of the histories two names, half of the records deletions and no logs, so that compacting a range that reaches the bottom leaves nothing and the list only shrinks; "
       "oracle = map model compared with full ref and log scans of Merged() after every step and of a fresh handle; "
       "non-trivial = a compaction of a range above older tables that still hold a key deleted by a tombstone in the range, or a compaction covering a log deletion; distinct = hash of the case JSON",
  technique="stateful property-based testing (rapid): stack vs. map reference model after every step",
  level_text="Generated histories against a reference model; every compaction must leave the full view unchanged (semantic tombstone rule). " + BOUNDED,
  level_note="Single writer, no I/O faults; trusts nothing of the stack code; the model is a pair of maps.",
  assumptions=[DOMAIN, "single process; transactions use update indices handed out by NextUpdateIndex()"])

C("C13", "TestC13", P(1500), P(6000, 16, 1500),
  rule="rapid-generated stacks built by 3..30 transactions (several log entries per ref, times 0..20, overwrites/deletions of existing entries, both message modes, optional intermediate compactions/expiries) "
       "then CompactAll with an expiry configuration where each of Time/MinUpdateIndex/MaxUpdateIndex is unset, below, equal to, inside or above the data; "
       "oracle = refs identical and logs == filter(model logs) with all fields equal, also through a fresh handle; "
       "non-trivial = at least one entry removed, one kept and one entry exactly on a limit; distinct = hash of the case JSON",
  technique="property-based testing (rapid): expiry result vs. a three-clause filter over the reference model",
  level_text="Generated stacks and expiry configurations; the result must equal the model filter exactly and refs must be untouched. " + BOUNDED,
  level_note="Single writer; the filter is the property's wording (older than the time limit, or update index outside the window; zero = unset).",
  assumptions=[DOMAIN, "CompactAll(cfg) is called on a non-empty stack"])

C("C09", "TestC09", P(800), P(5000, 16, 1500),
  rule="rapid-generated sequential histories over 2..4 handles on one directory (Add, NewAddition+Add*+Commit, CompactAll, AutoCompact, Clean, reopen; auto-compaction per handle); "
       "staleness is computed by the harness from Stack.String() vs tables.list; oracle per step: stale Add/NewAddition => ErrLockFailure and directory (file names + list bytes) unchanged; "
       "after a failed Add UpToDate()==true, NextUpdateIndex() > every committed index, refreshed view == model, immediate retry == nil; stale CompactAll/AutoCompact/Clean change nothing; "
       "fresh handles never fail; every handle always shows one committed state, never an older one than before (exactly the current one where the property fixes a refresh: open, successful Add, failed Add); compactions of arbitrary contiguous ranges make handles stale below the top table; "
       "an Addition may be held open over the following steps (the write lock stays taken): Add/NewAddition by other handles => ErrLockFailure, directory unchanged, handle refreshed; maintenance changes nothing; after the lock is given back without a commit the failed Add's retry must succeed; "
       "non-trivial = at least one write attempted through a stale handle; distinct = hash of the case JSON",
  technique="stateful property-based testing (rapid): multi-handle sequential histories vs. reference model and directory snapshots",
  level_text="Generated sequential histories with several handles; every write through a stale handle must fail without side effects and the retry must succeed. " + BOUNDED,
  level_note="Operations never overlap in time (interleavings are C04/C10); no I/O faults.",
  assumptions=[DOMAIN, "handles act one after another (no overlap)"])

C("C12", "TestC12", P(1500), P(8000, 16, 1500),
  rule="rapid-generated histories of 3..25 transactions over a pool of 19 names rich in parent/child/sibling relations, or (half of the cases) names grown from 1..4 components over {a,b,c,ab} and components that continue a sibling with a byte sorting before or right after the slash (a.b, a-, a+c, a!, a0, b., ..b: such names sort between a name and its children), plus 10 invalid names; each transaction 1..4 additions (value/peeled/symref) and deletions; "
       "submitted through Add and through 2..3-table Additions (committed or abandoned), name check on (4/5) or off; "
       "oracle from the property's wording: accepted iff every added name is valid and (live - deletions) + additions has no pair x, x/...; both directions; live set re-read and re-checked after every step; view == model; "
       "non-trivial = a transaction with a deletion and an addition related by prefix, or a multi-table Addition; distinct = hash of the case JSON",
  technique="stateful property-based testing (rapid): accept/reject decision and live set vs. a set-logic oracle",
  level_text="Generated histories; soundness (no conflicting state) and completeness (no legal transaction refused) are both asserted at every step. " + BOUNDED,
  level_note="Single writer; the oracle is 20 lines of set logic written from the property text.",
  assumptions=["single process; one record per name per table"])

C("C17", "TestC17", P(400, env={"VERIF_C17_MAXLEN": 4}), P(1500, 16, 2400, env={"VERIF_C17_MAXLEN": 6}),
  rule="(a) segment chooser as a pure function: exhaustive over all size vectors of length 0..L over {1,2,3,4,7,8,9,15,16,17,100,1000} (L=4 quick, 6 thorough) plus rapid vectors up to length 40 with sizes up to 2^56; "
       "validity predicate: nil iff no two adjacent sizes share floor(log2), else a range of >=2 tables inside the vector; "
       "(b) every Add/AutoCompact changes the table list by at most one replacement of a contiguous run of >=2 tables by <=1 table; "
       "(c) single-writer workloads of N identical-size transactions (N<=300 quick; thorough: N<=1500, and one case in 25 with N in 1500..5000; payload shape and configuration drawn; names carry their counter in front of the padding, or - one workload in three - as their last eight bytes, so that all names share a long prefix which key prefix compression removes in merged tables): depth <= 2*log2(n) after each Add (n>=4), EntriesWritten <= N*log2(N)*entries per transaction, asserted while all transaction tables had the same byte size; "
       "non-trivial = vector with two adjacent sizes of one class / workload with N>=64; distinct = enumerated vectors are distinct by construction, generated cases by hash",
  technique="bounded exhaustive enumeration + property-based testing (rapid): validity predicate for the chooser, bounds over generated workloads",
  level_text="Exhaustive for short size vectors over representative classes; generated search for longer vectors and for workloads. " + BOUNDED,
  level_note="The chooser is reached through an exported wrapper added to the scratch copy only; sizes >= 1 (a table is never empty).",
  assumptions=["table sizes are >= 1 and their sum fits in 64 bits", "single writer, identical-size transaction tables (verified at run time; the bounds are not asserted otherwise)"],
  exhaustive_part="all size vectors up to the stated length over the 12 representative sizes")

C("C14", "TestC14", P(3000), P(20000, 16, 1500), level="translation_validation",
  rule="each emitted table file is one program: 3/4 of the cases are C01-style generated tables (bytes from the writer; including the bulk and big-record shapes), 1/4 are C07-style stack histories whose every new *.ref file (written by Add or by compaction) is read from disk; "
       "each file is decoded by specdec, an independent decoder written from the format specification that walks the file sequentially and validates header/footer/CRC, section positions, block types/lengths/padding, restart tables, key order, "
       "every index level (entries == last key + position of each child, children == all blocks of the level below), the object index (prefix length, exact ref-block lists, completeness) and update-index range, "
       "then its records are compared with the source records (for compaction outputs: the raw overlay of the inputs, tombstones optionally dropped when the range starts at the oldest table); "
       "non-trivial = file with >= 2 blocks; distinct = hash of the case JSON",
  technique="translation validation by an independent decoder (specdec) over property-based generated tables and stack histories",
  level_text="Every generated output file is validated against its source records by a decoder that shares no code with the repository; a symmetric writer/reader change cannot pass. " + BOUNDED,
  level_note="Trusted base: specdec (about 600 lines, Go standard library only: compress/zlib, hash/crc32) and its reading of the specification; whether a file is padded is told to it by the harness (the header does not record it).",
  assumptions=[DOMAIN, "the decoder's reading of the reftable specification (reftable.md of JGit/git) is right"])

SCHED = "interleavings are explored at the granularity of the package-level filesystem calls of the stack code (source-rewritten copy, real filesystem on tmpfs); File.Write is not a yield point unless stated"

C("C04", "TestC04", P(3000), P(8000, 16, 2400), pkg="conc", flavour="inst",
  rule="rapid-generated (initial stack of 0..5 sequential transactions, 2..4 process programs of 1..4 operations from {Open, Add, multi-table Addition (committed/abandoned), CompactAll, CompactAll with expiry, AutoCompact, Read, Close, Clean}, auto-compaction per handle, schedule from {uniform picks, PCT with 0..3 priority changes, windowed}); "
       "every transaction writes a ref unique to it; oracle M4: after every rename onto tables.list the state decoded from disk by specdec must equal the previous state, or previous state + the transaction of the Add in progress, or the expiry of the previous state; Add returns nil iff its transition happened; errors only ErrLockFailure; fresh NewStack at the end == last version; "
       "thorough adds the exhaustive single pre-emption enumeration over all ordered pairs of 8 operation kinds x 3 initial stacks x 2 hash ids and double pre-emption of (CompactAll, Add, Add); "
       "non-trivial = operations of two processes overlap and one is a commit or compaction; distinct = hash of the case JSON (enumerated schedules are distinct by construction)",
  technique="property-based testing over schedules: deterministic scheduler owning every filesystem-call interleaving (rapid-drawn PCT/windowed/uniform schedules, bounded exhaustive pre-emption) with a history invariant decoded independently from disk",
  level_text="Generated and (thorough) bounded-exhaustive schedules of the real stack code at filesystem-call granularity; linearizability is judged per list transition against transactions applied in commit order. " + BOUNDED,
  level_note="Trusts the instrumenter (syntactic redirect of os/ioutil/time calls), the shim and POSIX semantics of the real filesystem; " + SCHED,
  assumptions=["no I/O faults", SCHED, "transactions are legal (conflict-free names) so content rejection does not occur"],
  exhaustive_part="thorough tier: single pre-emption of every ordered pair of operation kinds at every filesystem call, double pre-emption of (CompactAll, Add, Add)")

C("C05", "TestC05", P(2500), P(8000, 16, 2400), pkg="conc", flavour="inst",
  rule="engine of C04 with 1..4 processes, optionally 1..2 processes killed in front of a drawn filesystem call, and (1/4 of the cases) File.Write as an additional yield point; families: disjoint range compactions on a deep stack; cancelling transactions; a garbage-collecting step inside a compaction (a second handle's Clean/Close/read/open/Add run entirely inside the window in which a compaction has given the list lock back, the compactor pre-empted k filesystem calls into it); multi-table Additions whose Close comes only after the process's next operation; "
       "oracle M5 after EVERY filesystem step: each name in tables.list exists, decodes as a complete well-formed table of the stack's hash id (specdec: header==footer, CRC, all sections), limits strictly increasing; "
       "a pass-through NewStack probe every 7 steps and at the end must succeed and read; "
       "non-trivial = the list changed at least twice while another process was mid-operation, or a process was killed after a rename of its operation; distinct = hash of the case JSON",
  technique="property-based testing over schedules and crash points: invariant checked after every filesystem operation under a deterministic scheduler",
  level_text="Generated interleavings and crash points; referential integrity of tables.list is evaluated at every intermediate instant, which no sequential test can reach. " + BOUNDED,
  level_note="Process crashes only (no power loss: the code does not fsync); " + SCHED,
  assumptions=["no I/O faults other than process kills", SCHED],
  exhaustive_part="thorough tier: the C04 pre-emption enumerations re-run with the M5 monitor")

C("C08", "TestC08", P(3000), P(8000, 16, 2400), pkg="conc", flavour="inst",
  rule="engine of C04 with 2..4 processes running contention-heavy programs (Add with auto-compaction, CompactAll, range compactions, AutoCompact, Clean, committed and abandoned Additions of 0..3 tables) on a stack that always has >=3 tables; in a fifth of the cases an 'empty Addition' family (an Addition committed and closed without a table next to a writer that wants the lock, step-granular segment schedules); "
       "oracle M8 at every create/remove/rename of a *.lock path: a lock is created only while nobody owns it; a successful remove or rename of a lock file is performed by the process that created it; "
       "non-trivial = some lock acquisition failed with EEXIST in the case; distinct = hash of the case JSON",
  technique="property-based testing over schedules: lock-ownership monitor on the filesystem-call trace of a deterministic scheduler",
  level_text="Generated contention schedules; ownership is tracked from the trace of real O_EXCL creates, removes and renames. " + BOUNDED,
  level_note=SCHED,
  assumptions=["no crashes (a dead owner's lock stays, by design)", SCHED],
  exhaustive_part="thorough tier: the C04 pre-emption enumerations re-run with the M8 monitor")

C("C10", "TestC10", P(3000), P(8000, 16, 2400), pkg="conc", flavour="inst",
  rule="engine of C04 with a reading/reloading process (Open, Read, Add, AutoCompact) and 1..3 writers (Add, CompactAll, range compactions, AutoCompact, multi-table Addition, expiry); windowed schedules biased to pre-empt the reader inside its open/reload; a 'reload churn' family (a reloader whose every Add is stale against one writer alternating partial compactions and additions, under segment / operation-aligned schedules with pre-emptions); with a 'tail' sub-family (bottom merge, k additions, reader pre-empted between reading the list and its last opens while the newest two tables are merged); in a fifth of the cases the 'cancelling transactions' family (three names, half deletions, no logs: compactions with an empty result, i.e. list versions that bring no new table); a fixed slice of 192 enumerated single pre-emption schedules; "
       "oracle M10 after every completed call of every handle: a full scan through Merged() succeeds, Stack.String() names exactly one version of tables.list, the scan equals that version's state decoded from disk by specdec, and the version never decreases; "
       "non-trivial = a table named in a process's last read of the list was unlinked by another process, or a handle read after tables it holds were deleted; distinct = hash of the case JSON",
  technique="property-based testing over schedules: snapshot-consistency monitor against the history of list versions decoded independently",
  level_text="Generated interleavings of reload against compaction; every handle must always show exactly one committed version. " + BOUNDED,
  level_note=SCHED,
  assumptions=["no I/O faults", SCHED],
  exhaustive_part="thorough tier: the C04 pre-emption enumerations (incl. Open vs. CompactAll / Add-with-auto-compaction) re-run with the M10 monitor")

C("C16", "TestC16", P(3000), P(8000, 16, 2400), pkg="conc", flavour="inst",
  rule="a fixed slice of 192 enumerated single pre-emption schedules, then the engine of C04 with 1..4 processes whose programs include deliberately failing operations (Add with an invalid ref name, Add with limits below the next update index, abandoned Additions, Adds through stale handles, compactions that lose lock races, Close/Clean on empty stacks); "
       "a 'cancelling transactions' family (three names, half deletions, no unique ref) so that compaction results and whole stacks become empty; second family (1/3 of the multi-process cases): process 0 is killed at a drawn filesystem call and a survivor ends with Clean and Close (M5 keeps running: no listed table may disappear; Clean may only fail with ErrLockFailure; no panic); "
       "oracle M16: when a call returns, no lock or temporary file created by that handle exists; when all processes are done and none was killed the directory is exactly tables.list + the tables it names (both directions: no other file, and every listed table present); multi-table Additions are closed right after Commit or (1 in 3) only after the process's next operation; "
       "non-trivial = a case with a failed operation or a lost lock race; distinct = hash of the case JSON",
  technique="property-based testing over schedules and failure paths: creator-tracking monitor on the filesystem-call trace, directory audit at every idle point",
  level_text="Generated interleavings including the failure paths that leak; the audit runs at every operation return and at global quiescence. " + BOUNDED,
  level_note=SCHED,
  assumptions=["no I/O faults other than process kills", SCHED],
  exhaustive_part="thorough tier: the C04 pre-emption enumerations re-run with the M16 monitor")

C("C06", "TestC06", P(400), P(1500, 16, 3000), pkg="conc", flavour="inst", level="fault_enumeration",
  rule="rapid-generated (initial stack of 0..6 transactions incl. tombstones and logs, one target operation from {Add, multi-table Addition, abandoned Addition, CompactAll, CompactAll with expiry, AutoCompact, Clean, Close}, auto-compaction on/off, optionally a surviving second process with 1..3 operations which in half of those cases opens and reads BEFORE the target operation starts and continues after the kill on that outdated handle, with Clean/Close/compactions weighted up; survivors also run expiring and arbitrary-range compactions); "
       "the operation is first run uncrashed to count its n filesystem calls and to obtain the states before/after (decoded from disk by specdec); then for EVERY k in 0..n-1 the identical initial state is rebuilt and the process is killed in front of call k; "
       "oracle: the committed state at the kill is exactly before or exactly after; a fresh NewStack opens and reads it (M5 after every step, M4 for every later transition, M10 for the survivor); survivor writes fail only with ErrLockFailure; "
       "evaluations = (case, crash point) executions; non-trivial = crash point after the first rename of the run; distinct = (case hash, k)",
  technique="fault enumeration: exhaustive crash-point injection per generated operation (deterministic scheduler kill before each filesystem call) with a before/after state oracle",
  level_text="All crash points of each generated operation are enumerated (exhaustive for that operation); operations and initial stacks are generated. " + BOUNDED,
  level_note="Process kill = no further filesystem call and no further write through open files; descriptors are closed. Power loss is outside (no fsync in the code). " + SCHED,
  assumptions=["crash = process kill at a filesystem-call boundary", SCHED],
  exhaustive_part="all crash points (filesystem-call boundaries) of every generated target operation")

C("C19", "TestC19", P(300, timeout=900), P(800, 16, 2400), race=True,
  rule="rapid-generated view (one Reader memory- or file-backed, raw NewMerged over 1..4 tables, or a stack's merged view over files) and 20..120 read operations (SeekRef/SeekLog/RefsFor with bounded iteration, ReadRef); "
       "the view is opened twice: the list runs once sequentially on the first instance (reference results), then 2..8 goroutines run drawn (overlapping) slices of it at the same time on the SECOND, so far untouched Reader/Merged (so that lazily initialised or learned state is first written under concurrency); in a fifth of the tables the log records are incompressible and fitted to their block to within 0..14 bytes, so that deflated log blocks longer than the block size occur (class log-stream-longer-than-block); the test binary is built with -race (GORACE=halt_on_error=1); "
       "oracle = identical result per operation and no race-detector report; non-trivial = >=2 goroutines whose slices overlap (the same operations, hence the same blocks, are read concurrently); distinct = hash of the case JSON",
  technique="property-based testing (rapid) of concurrent vs. sequential reads under the Go race detector (differential + happens-before race detection)",
  level_text="Generated read workloads; explores workloads, not goroutine schedules: the race detector is happens-before based, so it reports conflicting unsynchronised accesses that were executed, independent of the interleaving hit. " + BOUNDED,
  level_note="Weakest decision of the set: goroutine schedules are whatever the runtime produced; relies on the race detector's happens-before analysis.",
  assumptions=["the Go race detector (TSan) observes every conflicting access pair that is executed", DOMAIN])

C("C18", "TestC18", P(20000, timeout=900), P(100000, 16, 3000), fuzz={"target": "FuzzReader", "pkg": "checks", "seconds": 300},
  rule="rapid-generated small valid tables of every layout, damaged by 1..4 edits: bit flips, byte sets (hostile constants), truncations, splices from a second table, byte insertions, and overwrites of structural fields located with specdec "
       "(version, block size, hash id, block type/length, first records, restart counts/offsets, footer offsets) with 1/2/3/8-byte hostile words, and 'redirects' (the position varint of an index entry or object record rewritten to the offset of another or the same block, same encoded length: cycles and type confusion in the index descent) and hostile varints (huge / over-long encodings over every varint field the independent decoder finds in the first and last records of a block: prefix/suffix lengths, update-index deltas, string lengths, counts, positions); in a third of the cases with logs the last log block is inflated, edited the same way (its varint fields and restart table as targets), deflated again and put back with block_len, log-index offset and CRC adjusted, so that damage reaches the log record decoder behind the zlib checksum; the footer copy and CRC are repaired in 5/6 of the cases so that the block decoders are reached; "
       "target: NewReader, full scans, SeekRef/SeekLog/RefsFor for original and foreign keys, the same through one- and two-table NewMerged, and in 1 case of 8 through the file block source and as a member of a stack directory (NewStack, the stack view, the validation reads of an Add, the reads of CompactAll; damaged table listed first or last); "
       "oracle: every call returns records or an error - a panic, an iterator yielding more records than the file has bytes, more than 64 MiB allocated for a KiB-sized file, or no return within 300 s is a violation (a case that needs more than 60 s but then finishes is counted as starved by an overloaded machine, not as a hang); "
       "thorough additionally runs the native coverage-guided fuzzer on the same oracle (inputs starting with 'L' are wrapped as the inflated content of a log block of a valid table); non-trivial = the damaged file still opens; distinct = hash of the case JSON",
  technique="mutation-based property testing (rapid) plus coverage-guided fuzzing (go test -fuzz) with a crash/termination/allocation oracle",
  level_text="Generated structural mutations of valid tables and (thorough) coverage-guided fuzzing; only crashes, non-termination and unbounded allocation are judged, any error return is fine. " + BOUNDED,
  level_note="The 300 s watchdog is the only timing-dependent signal; typical cases take milliseconds.",
  assumptions=["object ids passed to RefsFor have the hash size of the table that was damaged"])

C("C15", "TestC15", P(500, timeout=900), P(2500, 16, 2400), need_c=True,
  rule="rapid-generated C01-style tables (4/5) and C07-style stack histories (1/5), NUL-free strings, in both directions: "
       "Go writes -> the C implementation (c/*.c linked into a small driver, built with ASan+UBSan) answers full scans, SeekRef/SeekLog key classes and RefsFor; C writes -> Go scans, seeks and RefsFor; "
       "stacks: Go Add/compaction histories read by the C stack; C stack additions/compactions read by Go NewStack; "
       "oracle = both sides must equal the generated records / map model (hence each other); a crash or sanitizer report of the C code is a violation; "
       "non-trivial = >=2 records and (several blocks or a log section) / stack with >=2 committed transactions; distinct = hash of the case JSON",
  technique="differential property-based testing (rapid) between the Go and C implementations against a common reference model",
  level_text="Generated tables and stacks cross-read by the two implementations; also the only check that executes the C half of the repository. " + BOUNDED,
  level_note="The C merged table has no RefsFor entry point and the C stack cannot switch auto-compaction off: stacks are compared on scans and seeks, C-written stacks always auto-compact. One process spawn per direction and case.",
  assumptions=[DOMAIN, "strings contain no NUL (C strings)", "system zlib and gcc with ASan/UBSan are available"])
