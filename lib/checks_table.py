# Per-check configuration for ./run.  Case counts bound each tier; a time limit
# hit is INCONCLUSIVE (exit 2), never a violation.

def P(checks, shards=1, timeout=600, **kw):
    d = {"checks": checks, "shards": shards, "timeout": timeout}
    d.update(kw)
    return d

CHECKS = {
    "C01": {
        "pkg": "checks", "test": "TestC01", "flavour": "plain", "level": "exploration",
        "quick": P(3000), "thorough": P(20000, 16, 1500),
        "rule": "rapid-generated (config, limits, sorted refs, sorted logs); written with Writer, read back with a full scan; "
                "non-trivial = >=2 records and (more than one block, or a deletion record, or a log section); distinct = hash of the case JSON",
        "technique": "property-based testing (rapid): write/read round-trip against the generated record lists",
        "level_text": "Generated-input search: thousands of generated tables over all configuration fields are written and scanned back; exact equality with the generated records. Shows absence of counterexamples only within the explored cases.",
        "level_note": "Trusts the generator's reading of the writer's documented domain (ascending keys, NUL-free names, hash size, indices within limits); nothing else.",
        "assumptions": ["inputs are in the writer's documented domain (ascending keys, NUL-free non-empty names, hashes of the configured size, indices inside the limits)"],
    },
}
