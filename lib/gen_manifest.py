#!/usr/bin/env python3
"""Regenerates MANIFEST.json from lib/checks_table.py (kept in sync by construction)."""
import json, os, sys
here = os.path.dirname(os.path.abspath(__file__))
sys.path.insert(0, here)
from checks_table import CHECKS
root = os.path.dirname(here)
props = [json.loads(l) for l in open(os.path.join(root, "properties.jsonl"))]
checks = []
for pid, c in CHECKS.items():
    e = {
        "property_id": pid,
        "quick_cmd": "./run %s quick" % pid,
        "thorough_cmd": "./run %s thorough" % pid,
        "evidence_file": "evidence/%s.json" % pid,
        "replay_cmd_template": "./run %s --replay {path}" % pid,
        "engine": c.get("engine", "rapid-pbt"),
        "level_claimed": {"category": c["level"], "text": c["level_text"], "design_ref": c.get("design_ref", "DESIGN.md section 5")},
        "level_note": c["level_note"],
        "technique": c["technique"],
    }
    checks.append(e)
na = []
for p in props:
    if p["id"] not in CHECKS:
        na.append({"property_id": p["id"], "reason": "check not built yet in this revision of /verif (work in progress; the design in DESIGN.md section 5 covers it)"})
m = {
    "version": 1,
    "setup_cmd": "./run --setup",
    "hooks": {
        "guard": "none",
        "enable": "no hooks live in /repo: every check copies /repo's working tree to a scratch directory; the checks over schedules/crashes rewrite that copy's filesystem calls (tools/instrument) before building it",
        "baseline_off_cmd": "cd /repo && go test -vet=off -count=1 ./...",
        "source_commits": [],
        "add_only": True,
    },
    "engines": [
        {"name": "rapid-pbt", "path": "harness/", "serves_properties": sorted(CHECKS.keys()),
         "kind_free_text": "property-based testing with pgregory.net/rapid v1.3.0 over generated tables, histories, schedules and crash points; explicit oracles (reference models, independent decoder, C implementation); driver ./run"},
    ],
    "checks": checks,
    "not_applicable": na,
    "notes": "All random choices are rapid draws seeded from VERIF_SEED; exit 2 (INCONCLUSIVE) is used for build failures and time limits, never for violations. Genuine defects found on the pinned tree were repaired by 'fix:' commits in /repo and are listed in known_findings.txt.",
}
json.dump(m, open(os.path.join(root, "MANIFEST.json"), "w"), indent=1)
print("MANIFEST.json written: %d checks, %d not_applicable" % (len(checks), len(na)))
