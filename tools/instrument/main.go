// instrument rewrites a scratch copy of the package under test so that its
// package-level filesystem and clock calls go through the verifvfs package
// (which must already have been copied into <dir>/verifvfs).  The rewrite is
// purely syntactic and does not know the code base: selector expressions
// os.X / ioutil.X / time.X from fixed tables are redirected, the type os.File
// becomes verifvfs.File, and the import block is fixed up.
//
//	usage: instrument <dir>
package main

import (
	"bytes"
	"fmt"
	"go/ast"
	"go/format"
	"go/parser"
	"go/token"
	"os"
	"path/filepath"
	"strconv"
	"strings"
)

var osFuncs = map[string]string{
	"OpenFile": "OpenFile", "Open": "Open", "Create": "Create", "Rename": "Rename", "Remove": "Remove",
	"RemoveAll": "RemoveAll", "Stat": "Stat", "Lstat": "Lstat", "ReadFile": "ReadFile", "WriteFile": "WriteFile",
	"ReadDir": "ReadDir", "CreateTemp": "CreateTemp", "Mkdir": "Mkdir", "MkdirAll": "MkdirAll", "Link": "Link",
	"Truncate": "Truncate", "File": "File",
}

var ioutilFuncs = map[string]string{
	"ReadFile": "IoutilReadFile", "WriteFile": "IoutilWriteFile", "TempFile": "IoutilTempFile", "ReadDir": "IoutilReadDir",
}

var timeFuncs = map[string]string{"Now": "Now", "Sleep": "Sleep", "Since": "Since"}

func main() {
	if len(os.Args) != 2 {
		fmt.Fprintln(os.Stderr, "usage: instrument <dir>")
		os.Exit(2)
	}
	dir := os.Args[1]
	mod, err := os.ReadFile(filepath.Join(dir, "go.mod"))
	if err != nil {
		fatal(err)
	}
	modPath := ""
	for _, l := range strings.Split(string(mod), "\n") {
		if strings.HasPrefix(l, "module ") {
			modPath = strings.TrimSpace(strings.TrimPrefix(l, "module "))
		}
	}
	if modPath == "" {
		fatal(fmt.Errorf("no module line in go.mod"))
	}
	vfsPath := modPath + "/verifvfs"
	entries, err := os.ReadDir(dir)
	if err != nil {
		fatal(err)
	}
	total := 0
	for _, e := range entries {
		n := e.Name()
		if e.IsDir() || !strings.HasSuffix(n, ".go") || strings.HasSuffix(n, "_test.go") {
			continue
		}
		c, err := rewrite(filepath.Join(dir, n), vfsPath)
		if err != nil {
			fatal(fmt.Errorf("%s: %v", n, err))
		}
		if c > 0 {
			fmt.Printf("%s: %d call sites redirected\n", n, c)
		}
		total += c
	}
	fmt.Printf("total %d\n", total)
}

func fatal(err error) {
	fmt.Fprintln(os.Stderr, "instrument:", err)
	os.Exit(1)
}

func rewrite(path, vfsPath string) (int, error) {
	fset := token.NewFileSet()
	f, err := parser.ParseFile(fset, path, nil, parser.ParseComments)
	if err != nil {
		return 0, err
	}
	// local names of the interesting imports
	names := map[string]string{} // local name -> import path
	for _, im := range f.Imports {
		p, _ := strconv.Unquote(im.Path.Value)
		local := filepath.Base(p)
		if im.Name != nil {
			local = im.Name.Name
		}
		switch p {
		case "os", "io/ioutil", "time":
			names[local] = p
		}
	}
	if len(names) == 0 {
		return 0, nil
	}
	count := 0
	ast.Inspect(f, func(n ast.Node) bool {
		sel, ok := n.(*ast.SelectorExpr)
		if !ok {
			return true
		}
		id, ok := sel.X.(*ast.Ident)
		if !ok || id.Obj != nil { // id.Obj != nil: a local variable shadows the package name
			return true
		}
		p, ok := names[id.Name]
		if !ok {
			return true
		}
		var table map[string]string
		switch p {
		case "os":
			table = osFuncs
		case "io/ioutil":
			table = ioutilFuncs
		case "time":
			table = timeFuncs
		}
		if to, ok := table[sel.Sel.Name]; ok {
			id.Name = "verifvfs"
			sel.Sel.Name = to
			count++
		}
		return true
	})
	if count == 0 {
		return 0, nil
	}
	// which of the three packages are still referenced?
	used := map[string]bool{}
	ast.Inspect(f, func(n ast.Node) bool {
		if sel, ok := n.(*ast.SelectorExpr); ok {
			if id, ok := sel.X.(*ast.Ident); ok && id.Obj == nil {
				if _, ok := names[id.Name]; ok {
					used[id.Name] = true
				}
			}
		}
		return true
	})
	// fix the import declarations
	added := false
	for _, d := range f.Decls {
		gd, ok := d.(*ast.GenDecl)
		if !ok || gd.Tok != token.IMPORT {
			continue
		}
		var specs []ast.Spec
		for _, s := range gd.Specs {
			im := s.(*ast.ImportSpec)
			p, _ := strconv.Unquote(im.Path.Value)
			local := filepath.Base(p)
			if im.Name != nil {
				local = im.Name.Name
			}
			if _, interesting := names[local]; interesting && names[local] == p && !used[local] {
				continue // no longer used
			}
			specs = append(specs, s)
		}
		if !added {
			specs = append(specs, &ast.ImportSpec{Path: &ast.BasicLit{Kind: token.STRING, Value: strconv.Quote(vfsPath)}})
			added = true
		}
		gd.Specs = specs
		if len(gd.Specs) > 1 && !gd.Lparen.IsValid() {
			gd.Lparen = gd.Pos()
			gd.Rparen = gd.End()
		}
	}
	var buf bytes.Buffer
	if err := format.Node(&buf, fset, f); err != nil {
		return 0, err
	}
	return count, os.WriteFile(path, buf.Bytes(), 0644)
}
