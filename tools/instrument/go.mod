module veriftools/instrument

go 1.23
