package reftable

import "math/rand"

// This file is NOT part of hanwen/reftable.  The verification driver drops it
// into its scratch copy of the working tree; it only adds exported names for
// a few unexported items that the checks drive directly.

const VerifExportAvailable = true

// VerifSuggestSegment exposes the auto-compaction segment chooser.
func VerifSuggestSegment(sizes []uint64) (start, end int, ok bool) {
	seg := suggestCompactionSegment(sizes)
	if seg == nil {
		return 0, 0, false
	}
	return seg.start, seg.end, true
}

// VerifCompactRange compacts tables [first,last].
func (st *Stack) VerifCompactRange(first, last int, exp *LogExpirationConfig) (bool, error) {
	return st.compactRangeStats(first, last, exp)
}

// VerifSetAutoCompact switches the compaction that follows Add on or off.
func (st *Stack) VerifSetAutoCompact(on bool) { st.disableAutoCompact = !on }

// VerifTableNames lists the tables of the handle's current view.
func (st *Stack) VerifTableNames() []string {
	var out []string
	for _, r := range st.stack {
		out = append(out, r.Name())
	}
	return out
}

// VerifTableSizes is the size vector auto-compaction looks at.
func (st *Stack) VerifTableSizes() []uint64 { return st.tableSizesForCompaction() }

// VerifReseed makes table-name suffixes reproducible.
func VerifReseed(seed int64) { randomRandom = rand.New(rand.NewSource(seed)) }

// VerifCloseReadersOnly releases the handle's descriptors without the
// garbage collection that Stack.Close performs.
func (st *Stack) VerifCloseReadersOnly() {
	for _, r := range st.stack {
		r.Close()
	}
	st.stack = nil
}
