// Package verifvfs is NOT part of hanwen/reftable.  The verification driver
// drops it into a scratch copy of the working tree and rewrites that copy's
// package-level filesystem and clock calls to go through it (see /verif
// DESIGN.md section 3).  Without an installed scheduler every function is a
// plain pass-through to the real call.  With one, each call is a yield point:
// the calling "process" publishes the pending operation and blocks until the
// scheduler releases it (to perform the call for real) or kills it.
package verifvfs

import (
	"fmt"
	"os"
	"path/filepath"
	"strings"
	"sync"
	"time"
)

// File wraps *os.File: reads are the real methods; writes become no-ops once
// the owning process has been killed.
type File struct {
	*os.File
	owner *Proc
}

func (f *File) dead() bool { return f != nil && f.owner != nil && f.owner.killed }

func (f *File) Write(b []byte) (int, error) {
	if f.dead() {
		return len(b), nil
	}
	minorYield(f, "write")
	if f.dead() {
		return len(b), nil
	}
	return f.File.Write(b)
}

func (f *File) WriteString(s string) (int, error) {
	if f.dead() {
		return len(s), nil
	}
	minorYield(f, "write")
	if f.dead() {
		return len(s), nil
	}
	return f.File.WriteString(s)
}

func (f *File) WriteAt(b []byte, off int64) (int, error) {
	if f.dead() {
		return len(b), nil
	}
	return f.File.WriteAt(b, off)
}

func (f *File) Truncate(n int64) error {
	if f.dead() {
		return nil
	}
	return f.File.Truncate(n)
}

func (f *File) Sync() error {
	if f.dead() {
		return nil
	}
	return f.File.Sync()
}

// Close always releases the descriptor (the kernel does that for a dead process too).
func (f *File) Close() error {
	if f == nil || f.File == nil {
		return os.ErrInvalid
	}
	return f.File.Close()
}

// Event is one entry of the trace.
type Event struct {
	Step   int      `json:"step"`
	Proc   int      `json:"proc"`
	Op     string   `json:"op"`
	Paths  []string `json:"paths,omitempty"`
	Flags  int      `json:"flags,omitempty"`
	Err    string   `json:"err,omitempty"`
	OK     bool     `json:"ok"`
	Mark   bool     `json:"mark,omitempty"` // not a filesystem call: operation boundary or note
	Data   string   `json:"data,omitempty"`
	Killed bool     `json:"killed,omitempty"`
}

func (e Event) String() string {
	if e.Mark {
		return fmt.Sprintf("#%d p%d -- %s %s", e.Step, e.Proc, e.Op, e.Data)
	}
	res := "ok"
	if e.Killed {
		res = "KILLED before the call"
	} else if !e.OK {
		res = "err: " + e.Err
	}
	var ps []string
	for _, p := range e.Paths {
		ps = append(ps, filepath.Base(p))
	}
	return fmt.Sprintf("#%d p%d %s(%s) %s", e.Step, e.Proc, e.Op, strings.Join(ps, ", "), res)
}

type crashSentinel struct{ proc int }

// Proc is one simulated process: a goroutine running a program against the
// package under test.
type Proc struct {
	ID      int
	s       *Sched
	wake    chan struct{}
	yielded chan struct{}
	pending *Event // operation the process is blocked in front of
	started bool
	done    bool
	killed  bool
	// Panic is the value of a genuine panic of the code under test (not a kill).
	Panic interface{}
	Stack string
	// number of yield points passed (filesystem calls performed or attempted)
	Yields int
}

func (p *Proc) Done() bool      { return p.done }
func (p *Proc) Killed() bool    { return p.killed }
func (p *Proc) Pending() *Event { return p.pending }

// Sched runs processes one at a time.
type Sched struct {
	mu    sync.Mutex
	procs []*Proc
	cur   *Proc
	Trace []Event
	step  int
	// YieldOnWrite makes File.Write a (minor) yield point too.
	YieldOnWrite bool
	clock        time.Duration
	tmpCounter   int
}

var (
	activeMu sync.Mutex
	active   *Sched
)

var baseTime = time.Date(2020, 1, 1, 0, 0, 0, 0, time.UTC)

// Install makes s the scheduler seen by the shims (nil uninstalls).
func Install(s *Sched) {
	activeMu.Lock()
	active = s
	activeMu.Unlock()
}

func current() (*Sched, *Proc) {
	activeMu.Lock()
	s := active
	activeMu.Unlock()
	if s == nil {
		return nil, nil
	}
	s.mu.Lock()
	p := s.cur
	s.mu.Unlock()
	return s, p
}

func NewSched() *Sched { return &Sched{} }

// Spawn creates a process that will run body once released for the first time.
func (s *Sched) Spawn(body func()) *Proc {
	p := &Proc{ID: len(s.procs), s: s, wake: make(chan struct{}), yielded: make(chan struct{})}
	s.procs = append(s.procs, p)
	p.pending = &Event{Proc: p.ID, Op: "start", Mark: true}
	go func() {
		<-p.wake
		defer func() {
			if r := recover(); r != nil {
				if _, isCrash := r.(crashSentinel); !isCrash {
					p.Panic = r
					p.Stack = stack()
				}
			}
			p.done = true
			p.pending = nil
			p.yielded <- struct{}{}
		}()
		if p.killed {
			panic(crashSentinel{p.ID})
		}
		body()
	}()
	return p
}

// Step releases p: it performs its pending call (or, if kill is set, dies in
// front of it) and runs until its next yield point or the end of its program.
func (s *Sched) Step(p *Proc, kill bool) {
	if p.done {
		return
	}
	if kill {
		p.killed = true
	}
	s.mu.Lock()
	s.cur = p
	s.mu.Unlock()
	p.wake <- struct{}{}
	<-p.yielded
	s.mu.Lock()
	s.cur = nil
	s.mu.Unlock()
}

// KillAll ends every unfinished process (used to clean up after a failure).
func (s *Sched) KillAll() {
	for _, p := range s.procs {
		for !p.done {
			s.Step(p, true)
		}
	}
}

func (s *Sched) Procs() []*Proc { return s.procs }

func (s *Sched) record(e Event) {
	s.mu.Lock()
	e.Step = s.step
	s.step++
	s.Trace = append(s.Trace, e)
	s.mu.Unlock()
}

// Mark appends a note (operation boundary) for the running process; it is not a yield point.
func Mark(op, data string) {
	s, p := current()
	if s == nil || p == nil {
		return
	}
	s.record(Event{Proc: p.ID, Op: op, Data: data, Mark: true, OK: true})
}

// enter is called by every shim before the real call.  It returns the
// process (nil: pass-through).  It panics with the crash sentinel when the
// process has been killed.
func enter(op string, flags int, paths ...string) *Proc {
	s, p := current()
	if s == nil || p == nil {
		return nil
	}
	if p.killed {
		panic(crashSentinel{p.ID})
	}
	p.pending = &Event{Proc: p.ID, Op: op, Paths: paths, Flags: flags}
	p.Yields++
	p.yielded <- struct{}{}
	<-p.wake
	if p.killed {
		ev := *p.pending
		ev.Killed = true
		s.record(ev)
		panic(crashSentinel{p.ID})
	}
	return p
}

func leave(p *Proc, err error) {
	if p == nil {
		return
	}
	ev := *p.pending
	ev.OK = err == nil
	if err != nil {
		ev.Err = err.Error()
	}
	p.s.record(ev)
}

func minorYield(f *File, op string) {
	s, p := current()
	if s == nil || p == nil || !s.YieldOnWrite || f == nil || f.File == nil {
		return
	}
	q := enter(op, 0, f.File.Name())
	leave(q, nil)
}

func wrap(f *os.File, p *Proc) *File {
	if f == nil {
		return nil
	}
	return &File{File: f, owner: p}
}

// ---- os

func OpenFile(name string, flag int, perm os.FileMode) (*File, error) {
	p := enter("openfile", flag, name)
	f, err := os.OpenFile(name, flag, perm)
	leave(p, err)
	return wrap(f, p), err
}

func Open(name string) (*File, error) {
	p := enter("open", 0, name)
	f, err := os.Open(name)
	leave(p, err)
	return wrap(f, p), err
}

func Create(name string) (*File, error) {
	p := enter("create", os.O_RDWR|os.O_CREATE|os.O_TRUNC, name)
	f, err := os.Create(name)
	leave(p, err)
	return wrap(f, p), err
}

func Rename(oldpath, newpath string) error {
	p := enter("rename", 0, oldpath, newpath)
	err := os.Rename(oldpath, newpath)
	leave(p, err)
	return err
}

func Remove(name string) error {
	p := enter("remove", 0, name)
	err := os.Remove(name)
	leave(p, err)
	return err
}

func RemoveAll(name string) error {
	p := enter("removeall", 0, name)
	err := os.RemoveAll(name)
	leave(p, err)
	return err
}

func Stat(name string) (os.FileInfo, error) {
	p := enter("stat", 0, name)
	fi, err := os.Stat(name)
	leave(p, err)
	return fi, err
}

func Lstat(name string) (os.FileInfo, error) {
	p := enter("lstat", 0, name)
	fi, err := os.Lstat(name)
	leave(p, err)
	return fi, err
}

func ReadFile(name string) ([]byte, error) {
	p := enter("readfile", 0, name)
	b, err := os.ReadFile(name)
	leave(p, err)
	return b, err
}

func WriteFile(name string, data []byte, perm os.FileMode) error {
	p := enter("writefile", 0, name)
	err := os.WriteFile(name, data, perm)
	leave(p, err)
	return err
}

func ReadDir(name string) ([]os.DirEntry, error) {
	p := enter("readdir", 0, name)
	es, err := os.ReadDir(name)
	leave(p, err)
	return es, err
}

func Mkdir(name string, perm os.FileMode) error {
	p := enter("mkdir", 0, name)
	err := os.Mkdir(name, perm)
	leave(p, err)
	return err
}

func MkdirAll(name string, perm os.FileMode) error {
	p := enter("mkdirall", 0, name)
	err := os.MkdirAll(name, perm)
	leave(p, err)
	return err
}

func Link(oldname, newname string) error {
	p := enter("link", 0, oldname, newname)
	err := os.Link(oldname, newname)
	leave(p, err)
	return err
}

func Truncate(name string, size int64) error {
	p := enter("truncate", 0, name)
	err := os.Truncate(name, size)
	leave(p, err)
	return err
}

// CreateTemp / TempFile: deterministic, counter-based names under a scheduler.
func CreateTemp(dir, pattern string) (*File, error) {
	s, pr := current()
	if s == nil || pr == nil {
		f, err := os.CreateTemp(dir, pattern)
		return wrap(f, nil), err
	}
	if dir == "" {
		dir = os.TempDir()
	}
	prefix, suffix := pattern, ""
	if i := strings.LastIndex(pattern, "*"); i >= 0 {
		prefix, suffix = pattern[:i], pattern[i+1:]
	}
	for {
		s.mu.Lock()
		s.tmpCounter++
		n := s.tmpCounter
		s.mu.Unlock()
		name := filepath.Join(dir, fmt.Sprintf("%s%06d%s", prefix, n, suffix))
		p := enter("tempfile", os.O_RDWR|os.O_CREATE|os.O_EXCL, name)
		f, err := os.OpenFile(name, os.O_RDWR|os.O_CREATE|os.O_EXCL, 0600)
		if os.IsExist(err) {
			leave(p, err)
			continue
		}
		leave(p, err)
		return wrap(f, p), err
	}
}

// ---- io/ioutil

func IoutilReadFile(name string) ([]byte, error) { return ReadFile(name) }

func IoutilWriteFile(name string, data []byte, perm os.FileMode) error {
	return WriteFile(name, data, perm)
}

func IoutilTempFile(dir, pattern string) (*File, error) { return CreateTemp(dir, pattern) }

func IoutilReadDir(name string) ([]os.FileInfo, error) {
	p := enter("readdir", 0, name)
	es, err := os.ReadDir(name)
	var out []os.FileInfo
	if err == nil {
		for _, e := range es {
			fi, ierr := e.Info()
			if ierr != nil {
				continue // vanished between readdir and lstat, as with ioutil.ReadDir's lstat loop
			}
			out = append(out, fi)
		}
	}
	leave(p, err)
	return out, err
}

// ---- time: a virtual clock that only advances in Sleep.

func Now() time.Time {
	s, _ := current()
	if s == nil {
		activeMu.Lock()
		defer activeMu.Unlock()
		if everInstalled {
			return baseTime
		}
		return time.Now()
	}
	s.mu.Lock()
	defer s.mu.Unlock()
	return baseTime.Add(s.clock)
}

// everInstalled: once a scheduler has been used in this process the clock
// stays virtual (the test binary never mixes the two).
var everInstalled bool

func UseVirtualClock() {
	activeMu.Lock()
	everInstalled = true
	activeMu.Unlock()
}

func Since(t time.Time) time.Duration { return Now().Sub(t) }

func Sleep(d time.Duration) {
	s, pr := current()
	if s == nil || pr == nil {
		return // virtual time: the harness never waits
	}
	p := enter("sleep", 0)
	s.mu.Lock()
	s.clock += d
	s.mu.Unlock()
	leave(p, nil)
}

func stack() string {
	buf := make([]byte, 8192)
	n := runtimeStack(buf)
	return string(buf[:n])
}

// IsCrash reports whether a recovered panic value is the kill sentinel.
func IsCrash(r interface{}) bool {
	_, ok := r.(crashSentinel)
	return ok
}
