/*
 * cdriver: a small command line around the C implementation in hanwen/reftable
 * (c/), used by the differential check C15.  It is compiled at check time
 * against the scratch copy of /repo/c with ASan+UBSan.
 *
 *   cdriver write-table <spec> <out.ref>
 *   cdriver read-table  <table.ref> <queries>
 *   cdriver write-stack <spec> <dir>
 *   cdriver read-stack  <dir> <hash:1|2> <queries>
 *
 * All strings travel as hex ("-" is the empty string) so that both sides
 * print records canonically:
 *   ref <name> <idx> <kind> <val|-> <peeled|-> <target|->
 *   log <name> <idx> del
 *   log <name> <idx> upd <old> <new> <who|-> <email|-> <time> <tz> <msg|->
 */
#include <errno.h>
#include <fcntl.h>
#include <inttypes.h>
#include <stdint.h>
#include <stdio.h>
#include <stdlib.h>
#include <string.h>
#include <unistd.h>

#include "reftable-blocksource.h"
#include "reftable-error.h"
#include "reftable-iterator.h"
#include "reftable-merged.h"
#include "reftable-reader.h"
#include "reftable-record.h"
#include "reftable-stack.h"
#include "reftable-writer.h"

#define SHA1_ID 0x73686131
#define S256_ID 0x73323536

static int hash_size = 20;

static void die(const char *msg)
{
	fprintf(stderr, "cdriver: %s\n", msg);
	exit(3);
}

static int hexval(int c)
{
	if (c >= '0' && c <= '9')
		return c - '0';
	if (c >= 'a' && c <= 'f')
		return c - 'a' + 10;
	die("bad hex");
	return 0;
}

/* decodes hex into a malloced, NUL terminated buffer; "-" is empty. */
static char *unhex(const char *s, int *len)
{
	int n, i;
	char *out;
	if (!strcmp(s, "-")) {
		out = calloc(1, 1);
		if (len)
			*len = 0;
		return out;
	}
	n = strlen(s) / 2;
	out = calloc(n + 1, 1);
	for (i = 0; i < n; i++)
		out[i] = (char)(hexval(s[2 * i]) * 16 + hexval(s[2 * i + 1]));
	if (len)
		*len = n;
	return out;
}

static void puthex(const uint8_t *p, int n)
{
	int i;
	if (!p || n == 0) {
		printf("-");
		return;
	}
	for (i = 0; i < n; i++)
		printf("%02x", p[i]);
}

static void putstr(const char *s)
{
	if (!s || !*s) {
		printf("-");
		return;
	}
	puthex((const uint8_t *)s, strlen(s));
}

static void print_ref(struct reftable_ref_record *r)
{
	printf("ref ");
	putstr(r->refname);
	printf(" %" PRIu64 " %d ", r->update_index, (int)r->value_type);
	switch (r->value_type) {
	case REFTABLE_REF_VAL1:
		puthex(r->value.val1, hash_size);
		printf(" - -");
		break;
	case REFTABLE_REF_VAL2:
		puthex(r->value.val2.value, hash_size);
		printf(" ");
		puthex(r->value.val2.target_value, hash_size);
		printf(" -");
		break;
	case REFTABLE_REF_SYMREF:
		printf("- - ");
		putstr(r->value.symref);
		break;
	default:
		printf("- - -");
	}
	printf("\n");
}

static void print_log(struct reftable_log_record *l)
{
	static uint8_t zeros[64];
	printf("log ");
	putstr(l->refname);
	printf(" %" PRIu64 " ", l->update_index);
	if (l->value_type == REFTABLE_LOG_DELETION) {
		printf("del\n");
		return;
	}
	printf("upd ");
	puthex(l->value.update.old_hash ? l->value.update.old_hash : zeros, hash_size);
	printf(" ");
	puthex(l->value.update.new_hash ? l->value.update.new_hash : zeros, hash_size);
	printf(" ");
	putstr(l->value.update.name);
	printf(" ");
	putstr(l->value.update.email);
	printf(" %" PRIu64 " %d ", l->value.update.time, (int)l->value.update.tz_offset);
	putstr(l->value.update.message);
	printf("\n");
}

/* ---------- spec parsing */

#define MAXTOK 16

static int split(char *line, char **tok)
{
	int n = 0;
	char *p = strtok(line, " \n");
	while (p && n < MAXTOK) {
		tok[n++] = p;
		p = strtok(NULL, " \n");
	}
	return n;
}

static struct reftable_write_options parse_cfg(char **tok, int n)
{
	struct reftable_write_options o = { 0 };
	if (n < 7)
		die("cfg: too few fields");
	o.block_size = (uint32_t)strtoul(tok[1], NULL, 10);
	o.restart_interval = atoi(tok[2]);
	o.unpadded = atoi(tok[3]);
	o.skip_index_objects = atoi(tok[4]);
	o.hash_id = atoi(tok[5]) == 2 ? S256_ID : SHA1_ID;
	hash_size = atoi(tok[5]) == 2 ? 32 : 20;
	o.exact_log_message = atoi(tok[6]);
	o.skip_name_check = 1;
	return o;
}

/* fills a ref record from "ref <name> <idx> <kind> <val> <peeled> <target>" */
static void parse_ref(char **tok, int n, struct reftable_ref_record *r, uint64_t base)
{
	if (n < 7)
		die("ref: too few fields");
	memset(r, 0, sizeof(*r));
	r->refname = unhex(tok[1], NULL);
	r->update_index = base + strtoull(tok[2], NULL, 10);
	r->value_type = atoi(tok[3]);
	switch (r->value_type) {
	case REFTABLE_REF_VAL1:
		r->value.val1 = (uint8_t *)unhex(tok[4], NULL);
		break;
	case REFTABLE_REF_VAL2:
		r->value.val2.value = (uint8_t *)unhex(tok[4], NULL);
		r->value.val2.target_value = (uint8_t *)unhex(tok[5], NULL);
		break;
	case REFTABLE_REF_SYMREF:
		r->value.symref = unhex(tok[6], NULL);
		break;
	default:
		break;
	}
}

/* "log <name> <idx> del" | "log <name> <idx> upd <old|-> <new|-> <who> <email> <time> <tz> <msg>" */
static void parse_log(char **tok, int n, struct reftable_log_record *l, uint64_t base)
{
	if (n < 4)
		die("log: too few fields");
	memset(l, 0, sizeof(*l));
	l->refname = unhex(tok[1], NULL);
	l->update_index = base + strtoull(tok[2], NULL, 10);
	if (!strcmp(tok[3], "del")) {
		l->value_type = REFTABLE_LOG_DELETION;
		return;
	}
	if (n < 11)
		die("log upd: too few fields");
	l->value_type = REFTABLE_LOG_UPDATE;
	if (strcmp(tok[4], "-"))
		l->value.update.old_hash = (uint8_t *)unhex(tok[4], NULL);
	if (strcmp(tok[5], "-"))
		l->value.update.new_hash = (uint8_t *)unhex(tok[5], NULL);
	l->value.update.name = unhex(tok[6], NULL);
	l->value.update.email = unhex(tok[7], NULL);
	l->value.update.time = strtoull(tok[8], NULL, 10);
	l->value.update.tz_offset = (int16_t)atoi(tok[9]);
	l->value.update.message = unhex(tok[10], NULL);
}

static ssize_t fd_write(void *arg, const void *data, size_t sz)
{
	int *fdp = (int *)arg;
	return write(*fdp, data, sz);
}

/* ---------- write-table */

static int cmd_write_table(const char *spec, const char *out)
{
	FILE *f = fopen(spec, "r");
	char *line = NULL;
	size_t cap = 0;
	struct reftable_write_options opts = { 0 };
	struct reftable_writer *w = NULL;
	int fd = open(out, O_CREAT | O_TRUNC | O_WRONLY, 0644);
	int err = 0, lineno = 0;
	uint64_t min = 0, max = 0;
	if (!f || fd < 0)
		die("cannot open files");
	while (getline(&line, &cap, f) > 0) {
		char *tok[MAXTOK];
		int n = split(line, tok);
		lineno++;
		if (n == 0)
			continue;
		if (!strcmp(tok[0], "cfg")) {
			opts = parse_cfg(tok, n);
		} else if (!strcmp(tok[0], "limits")) {
			min = strtoull(tok[1], NULL, 10);
			max = strtoull(tok[2], NULL, 10);
			w = reftable_new_writer(fd_write, &fd, &opts);
			reftable_writer_set_limits(w, min, max);
		} else if (!strcmp(tok[0], "ref")) {
			struct reftable_ref_record r;
			parse_ref(tok, n, &r, 0);
			err = reftable_writer_add_ref(w, &r);
			reftable_ref_record_release(&r);
			if (err < 0) {
				printf("add-error %d line %d\n", err, lineno);
				return 0;
			}
		} else if (!strcmp(tok[0], "log")) {
			struct reftable_log_record l;
			parse_log(tok, n, &l, 0);
			err = reftable_writer_add_log(w, &l);
			reftable_log_record_release(&l);
			if (err < 0) {
				printf("add-error %d line %d\n", err, lineno);
				return 0;
			}
		}
	}
	if (!w)
		die("no limits line");
	err = reftable_writer_close(w);
	reftable_writer_free(w);
	close(fd);
	printf("close %d\n", err);
	free(line);
	fclose(f);
	return 0;
}

/* ---------- queries */

static void dump_iter(struct reftable_iterator *it, int logs, long limit)
{
	long n = 0;
	int err = 0;
	while (1) {
		if (logs) {
			struct reftable_log_record l = { 0 };
			err = reftable_iterator_next_log(it, &l);
			if (err == 0 && (limit < 0 || n < limit))
				print_log(&l);
			reftable_log_record_release(&l);
		} else {
			struct reftable_ref_record r = { 0 };
			err = reftable_iterator_next_ref(it, &r);
			if (err == 0 && (limit < 0 || n < limit))
				print_ref(&r);
			reftable_ref_record_release(&r);
		}
		if (err != 0)
			break;
		n++;
		if (n > 10000000)
			die("iterator does not terminate");
	}
	if (err < 0)
		printf("iter-error %d\n", err);
	printf("count %ld\n", n);
	reftable_iterator_destroy(it);
}

static void run_queries(const char *queries, struct reftable_reader *rd, struct reftable_merged_table *mt)
{
	FILE *f = fopen(queries, "r");
	char *line = NULL;
	size_t cap = 0;
	if (!f)
		die("cannot open queries");
	while (getline(&line, &cap, f) > 0) {
		char *tok[MAXTOK];
		char *copy = strdup(line); /* names can be thousands of bytes long */
		int n, err = 0;
		struct reftable_iterator it = { 0 };
		n = split(line, tok);
		if (n == 0) {
			free(copy);
			continue;
		}
		printf("# %s", copy);
		free(copy);
		if (!strcmp(tok[0], "scanrefs") || !strcmp(tok[0], "seekref")) {
			char *name = n > 1 ? unhex(tok[1], NULL) : calloc(1, 1);
			long limit = strcmp(tok[0], "scanrefs") ? 3 : -1;
			err = rd ? reftable_reader_seek_ref(rd, &it, name) : reftable_merged_table_seek_ref(mt, &it, name);
			free(name);
			if (err < 0)
				printf("seek-error %d\n", err);
			else if (err > 0)
				printf("count 0\n"); /* API convention: nothing at or after the key */
			else
				dump_iter(&it, 0, limit);
		} else if (!strcmp(tok[0], "scanlogs") || !strcmp(tok[0], "seeklog")) {
			char *name = n > 1 ? unhex(tok[1], NULL) : calloc(1, 1);
			uint64_t idx = n > 2 ? strtoull(tok[2], NULL, 10) : UINT64_MAX;
			long limit = strcmp(tok[0], "scanlogs") ? 3 : -1;
			err = rd ? reftable_reader_seek_log_at(rd, &it, name, idx) :
				   reftable_merged_table_seek_log_at(mt, &it, name, idx);
			free(name);
			if (err < 0)
				printf("seek-error %d\n", err);
			else if (err > 0)
				printf("count 0\n");
			else
				dump_iter(&it, 1, limit);
		} else if (!strcmp(tok[0], "refsfor")) {
			uint8_t *oid = (uint8_t *)unhex(tok[1], NULL);
			if (!rd) {
				printf("unsupported\n");
			} else {
				err = reftable_reader_refs_for(rd, &it, oid);
				if (err < 0)
					printf("seek-error %d\n", err);
				else if (err > 0)
					printf("count 0\n");
				else
					dump_iter(&it, 0, -1);
			}
			free(oid);
		}
	}
	free(line);
	fclose(f);
}

static int cmd_read_table(const char *table, const char *queries)
{
	struct reftable_block_source src = { 0 };
	struct reftable_reader *rd = NULL;
	int err = reftable_block_source_from_file(&src, table);
	if (err < 0) {
		printf("open-error %d\n", err);
		return 0;
	}
	err = reftable_new_reader(&rd, &src, "table");
	if (err < 0) {
		printf("open-error %d\n", err);
		return 0;
	}
	hash_size = reftable_reader_hash_id(rd) == S256_ID ? 32 : 20;
	printf("limits %" PRIu64 " %" PRIu64 " hash %d\n", reftable_reader_min_update_index(rd),
	       reftable_reader_max_update_index(rd), hash_size);
	run_queries(queries, rd, NULL);
	reftable_reader_free(rd);
	return 0;
}

/* ---------- stacks */

struct tx {
	struct reftable_ref_record *refs;
	int nrefs;
	struct reftable_log_record *logs;
	int nlogs;
	uint64_t wide;
	struct reftable_stack *st;
	char **lines; /* raw lines, parsed inside the callback once the base index is known */
	int nlines;
};

static int write_tx(struct reftable_writer *wr, void *arg)
{
	struct tx *t = (struct tx *)arg;
	uint64_t min = reftable_stack_next_update_index(t->st);
	int i, err = 0;
	reftable_writer_set_limits(wr, min, min + t->wide);
	for (i = 0; i < t->nlines && err >= 0; i++) {
		char *tok[MAXTOK];
		char *copy = strdup(t->lines[i]);
		int n = split(copy, tok);
		if (n > 0 && !strcmp(tok[0], "ref")) {
			struct reftable_ref_record r;
			parse_ref(tok, n, &r, min);
			err = reftable_writer_add_ref(wr, &r);
			reftable_ref_record_release(&r);
		} else if (n > 0 && !strcmp(tok[0], "log")) {
			struct reftable_log_record l;
			parse_log(tok, n, &l, 0); /* log indices are absolute in stack specs */
			err = reftable_writer_add_log(wr, &l);
			reftable_log_record_release(&l);
		}
		free(copy);
	}
	return err;
}

static int cmd_write_stack(const char *spec, const char *dir)
{
	FILE *f = fopen(spec, "r");
	char *line = NULL;
	size_t cap = 0;
	struct reftable_write_options opts = { 0 };
	struct reftable_stack *st = NULL;
	struct tx cur = { 0 };
	int in_tx = 0, err = 0, step = 0;
	if (!f)
		die("cannot open spec");
	while (getline(&line, &cap, f) > 0) {
		char *tok[MAXTOK];
		char *copy = strdup(line);
		int n = split(copy, tok);
		if (n == 0) {
			free(copy);
			continue;
		}
		if (!strcmp(tok[0], "cfg")) {
			opts = parse_cfg(tok, n);
			err = reftable_new_stack(&st, dir, opts);
			if (err < 0) {
				printf("new-stack-error %d\n", err);
				return 0;
			}
		} else if (!strcmp(tok[0], "tx")) {
			memset(&cur, 0, sizeof(cur));
			cur.wide = strtoull(tok[1], NULL, 10);
			cur.st = st;
			in_tx = 1;
		} else if (!strcmp(tok[0], "end")) {
			int i;
			err = reftable_stack_add(st, write_tx, &cur);
			printf("step %d add %d\n", step++, err);
			for (i = 0; i < cur.nlines; i++)
				free(cur.lines[i]);
			free(cur.lines);
			in_tx = 0;
		} else if (in_tx && (!strcmp(tok[0], "ref") || !strcmp(tok[0], "log"))) {
			cur.lines = realloc(cur.lines, sizeof(char *) * (cur.nlines + 1));
			cur.lines[cur.nlines++] = strdup(line);
		} else if (!strcmp(tok[0], "compact")) {
			err = reftable_stack_compact_all(st, NULL);
			printf("step %d compact %d\n", step++, err);
		} else if (!strcmp(tok[0], "autocompact")) {
			err = reftable_stack_auto_compact(st);
			printf("step %d autocompact %d\n", step++, err);
		}
		free(copy);
	}
	if (st)
		reftable_stack_destroy(st);
	free(line);
	fclose(f);
	return 0;
}

static int cmd_read_stack(const char *dir, const char *hash, const char *queries)
{
	struct reftable_write_options opts = { 0 };
	struct reftable_stack *st = NULL;
	int err;
	opts.hash_id = atoi(hash) == 2 ? S256_ID : SHA1_ID;
	hash_size = atoi(hash) == 2 ? 32 : 20;
	opts.skip_name_check = 1;
	err = reftable_new_stack(&st, dir, opts);
	if (err < 0) {
		printf("open-error %d\n", err);
		return 0;
	}
	printf("opened\n");
	run_queries(queries, NULL, reftable_stack_merged_table(st));
	reftable_stack_destroy(st);
	return 0;
}

int main(int argc, char **argv)
{
	if (argc == 4 && !strcmp(argv[1], "write-table"))
		return cmd_write_table(argv[2], argv[3]);
	if (argc == 4 && !strcmp(argv[1], "read-table"))
		return cmd_read_table(argv[2], argv[3]);
	if (argc == 4 && !strcmp(argv[1], "write-stack"))
		return cmd_write_stack(argv[2], argv[3]);
	if (argc == 5 && !strcmp(argv[1], "read-stack"))
		return cmd_read_stack(argv[2], argv[3], argv[4]);
	fprintf(stderr, "usage: cdriver write-table|read-table|write-stack|read-stack ...\n");
	return 2;
}
